"""pyvc engine: symbolic execution of real Python function bodies (ast re-read from
/repo every run) against sidecar contracts; every contract clause becomes one or
more verification conditions discharged by z3 (unsat of pc & not clause).

Execution is path-based with a decision oracle (re-execution on backtracking);
loops are cut by sidecar invariants, calls by callee contracts.
"""
import ast, time, itertools, re, os
import z3
from . import repo
from .vtypes import *
from . import vtypes as T

# ------------------------------------------------------------------ signals
class FlowSig(BaseException): pass
class ReturnSig(FlowSig):
    def __init__(self, v): self.v = v
class BreakSig(FlowSig): pass
class ContinueSig(FlowSig): pass
class RaiseSig(FlowSig):
    def __init__(self, exc): self.exc = exc
class PathEnd(BaseException): pass          # path intentionally stopped (loop step done / assume false)
class Infeasible(BaseException): pass       # path condition unsat
class NeedFork(BaseException): pass         # speculative evaluation would need a fork

# ------------------------------------------------------------------ python-level objects
class PyObj: pass
class FuncRef(PyObj):
    def __init__(self, rel, qual, node, cls=None, closure=None):
        self.rel, self.qual, self.node, self.cls, self.closure = rel, qual, node, cls, closure
    @property
    def key(self): return '%s:%s' % (self.rel, self.qual)
class ClassRef(PyObj):
    def __init__(self, rel, name, node): self.rel, self.name, self.node = rel, name, node
class ModuleRef(PyObj):
    def __init__(self, dotted, info): self.dotted, self.info = dotted, info
class BuiltinRef(PyObj):
    def __init__(self, name): self.name = name
class BoundMethod(PyObj):
    def __init__(self, recv, func, recv_node=None): self.recv, self.func, self.recv_node = recv, func, recv_node
class BoundBuiltin(PyObj):
    def __init__(self, recv, name, recv_node=None): self.recv, self.name, self.recv_node = recv, name, recv_node
class IterV(PyObj):
    """virtual finite sequence: length term + element getter (python closure i_term -> V)"""
    def __init__(self, ln, get, ety=None): self.ln, self.get, self.ety = ln, get, ety
class MapIterV(PyObj):
    """iteration over an (unordered) map: keys / values / items, in arbitrary order"""
    def __init__(self, m, kind): self.m, self.kind = m, kind
class ExcClass(PyObj):
    def __init__(self, name): self.name = name
class LambdaV(PyObj):
    def __init__(self, node, env): self.node, self.env = node, env
class PyMethod(PyObj):
    """a method modelled by a python function in the sidecar (e.g. a ghost output buffer)"""
    def __init__(self, recv, fn): self.recv, self.fn = recv, fn
class ExtMethod(PyObj):
    def __init__(self, recv, key): self.recv, self.key = recv, key
class FlagNS(PyObj):
    def __init__(self, name): self.name = name
class SpecFn(PyObj):
    def __init__(self, name): self.name = name
class TypeObj(PyObj):
    def __init__(self, ty): self.ty = ty

class KwDict(PyObj):
    """a python-level dict with constant string keys (dict(a=.., b=..) / {}.update(...)), used for **-expansion into keyword arguments"""
    def __init__(self, items): self.items = dict(items)

class CoroV(PyObj):
    """a coroutine object created by calling an `async def` without awaiting it (nothing has run yet)"""
    def __init__(self, f, args, kwargs): self.f, self.args, self.kwargs = f, args, kwargs

class ExcV:
    """python-level exception value"""
    def __init__(self, cls, args=(), attrs=None): self.cls, self.args, self.attrs = cls, list(args), dict(attrs or {})
    def __repr__(self): return 'ExcV(%s)' % self.cls

BUILTIN_EXC = {
    'BaseException': None, 'Exception': 'BaseException', 'ValueError': 'Exception', 'KeyError': 'LookupError',
    'IndexError': 'LookupError', 'LookupError': 'Exception', 'AssertionError': 'Exception', 'TypeError': 'Exception',
    'AttributeError': 'Exception', 'RuntimeError': 'Exception', 'NotImplementedError': 'RuntimeError',
    'StopIteration': 'Exception', 'ZeroDivisionError': 'ArithmeticError', 'ArithmeticError': 'Exception',
    'OverflowError': 'ArithmeticError', 'UnicodeError': 'ValueError', 'CancelledError': 'BaseException',
    'TimeoutError': 'Exception', 'OSError': 'Exception', 'EOFError': 'Exception', 'ImportError': 'Exception', 'ModuleNotFoundError': 'ImportError',
    'MemoryError': 'Exception', 'RecursionError': 'RuntimeError', 'NameError': 'Exception', 'UnicodeDecodeError': 'UnicodeError', 'UnicodeEncodeError': 'UnicodeError',
    'FileNotFoundError': 'OSError', 'PermissionError': 'OSError', 'ConnectionError': 'OSError', 'BufferError': 'Exception', 'StopAsyncIteration': 'Exception',
}

# ------------------------------------------------------------------ contracts
class Contract:
    def __init__(self, rel, qual, **kw):
        self.rel, self.qual = rel, qual
        self.view = kw.pop('view', None)          # several contracts ("views") may be verified for one function; calls resolve within the same view first
        self.params = kw.pop('params', {})        # name -> type string (in signature order is taken from the real def)
        self.ghost = kw.pop('ghost', {})          # ghost params name -> type
        self.state = kw.pop('state', {})          # closed-over / global state name -> type
        self.returns = kw.pop('returns', 'none')
        self.requires = kw.pop('requires', [])
        self.caller_requires = kw.pop('caller_requires', [])   # obligations at every call site that the body itself does not rely on (not assumed when the body is verified)
        self.ensures = kw.pop('ensures', [])
        self.raises = kw.pop('raises', {})        # exc class -> dict(only_if=expr|None, ensures=[...])
        self.modifies = kw.pop('modifies', [])    # state names and 'Cls.field' heap fields
        self.loops = kw.pop('loops', {})          # ordinal -> dict(fingerprint, invariant, index, vars, decreases)
        self.pure = kw.pop('pure', False)
        self.inline = kw.pop('inline', False)     # execute body at call sites (tiny helpers); listed in evidence
        self.call_ghost = kw.pop('call_ghost', {})  # (callee qual, ordinal) -> {ghost: expr}
        self.lemmas = kw.pop('lemmas', {})        # label -> list of spec exprs assumed after being proved? (unused yet)
        self.tags = kw.pop('tags', {})            # clause text -> 'property'|'auxiliary'
        self.trusted = kw.pop('trusted', False)   # contract assumed, body not verified (listed as assumption)
        self.self_type = kw.pop('self_type', None)
        self.unroll = kw.pop('unroll', 0)
        self.faults = kw.pop('faults', [])
        self.ghost_after = kw.pop('ghost_after', {})   # unparse(statement) -> [(ghost var, spec expr)] executed right after it
        self.abstract = kw.pop('abstract', {})         # first source line of a statement -> dict(assigns={var: type}, ensures=[...]): the statement is NOT executed,
                                                       # its assigned variables are havoc'd and `ensures` assumed (a block contract that is assumed, listed in the evidence)
        self.hints = kw.pop('hints', {})          # where -> [spec exprs to instantiate (assume-after-prove)]
        assert not kw, 'unknown contract keys %r' % list(kw)
    @property
    def key(self): return '%s:%s' % (self.rel, self.qual) + ('#' + self.view if self.view else '')
    @property
    def oname(self): return self.qual + ('#' + self.view if self.view else '')

class World:
    """all sidecar declarations of one property: types, classes, contracts, spec defs"""
    def __init__(self, pid):
        self.pid = pid
        self.types = {'int': TInt, 'bool': TBool, 'str': TStr, 'float': TFloat, 'none': TNone, 'None': TNone, 'bytes': TBytes, 'flags': TFlags}
        self.classes = {}      # ref class name -> {field: type string}
        self.contracts = {}    # key -> Contract
        self.defs = {}         # spec macro name -> (params, expr string)
        self.ufuncs = {}       # name -> (arg type strings, ret type string)
        self.axioms = []       # global spec facts (strings) assumed everywhere: listed as trusted
        self.enum_src = {}     # enum type name -> (rel, classname)
        self.rec_src = {}      # rec type name -> (rel, classname)
        self.class_src = {}    # ref class name -> (rel, classname)
        self.trusted = []      # free-text trusted-base entries
        self.flag_src = {}          # flag enum name -> (rel, class, {member: int})
        self.py_methods = {}        # (ref class, method) -> python model function(ex, recv, args, kwargs, node)
        self.ufunc_facts = {}
        self.builtin_alias = {}     # name in repo code -> builtin model it behaves like (e.g. OrderedSet -> set), listed as assumption
        self.hierarchies = {}       # ref class name -> rel of the module whose class hierarchy decides isinstance on it
        self.callable_recs = {}     # record type name -> python function(ex, recv, args, kwargs, node) modelling __call__
        self.ext_funcs = {}         # source text of a callee expression -> assumed contract dict (code outside reach)
        self.opaque_exprs = {}      # source text of a constant expression -> type (opaque fixed value)
        self.ext_methods = {}       # 'Cls.method' -> Contract-like dict for code outside reach (assumed; listed)
        self.partial_types = {}     # function name -> record type modelling functools.partial(f, **kw) objects
        self.definitional = set()   # macro names that are defining equations of ufuncs (may be instantiated as lemmas)
        self.coroutine_objects = False   # True: a call of an `async def` that is not directly awaited only creates a coroutine object
        self.opaque = {}       # dotted callee name -> ret type string (uninterpreted pure function of its args; assumption)
        self.dict_classes = {}      # ref class name -> map type string: a python dict held BY REFERENCE (aliases see each other's updates; .copy() allocates)

    # --- declarations
    def enum(self, name, rel, cls, ordered=False):
        node, _ = repo.find_def(rel, cls)
        members, values = [], []
        for st in node.body:
            if isinstance(st, ast.Assign) and len(st.targets) == 1 and isinstance(st.targets[0], ast.Name) and not st.targets[0].id.startswith('_'):
                try: val = ast.literal_eval(st.value)
                except Exception:
                    if isinstance(st.value, ast.Call) and isinstance(st.value.func, ast.Attribute) and st.value.func.attr == 'auto':
                        val = len(members) + 1
                    else:
                        try: val = eval(compile(ast.Expression(st.value), '<enum>', 'eval'), {'__builtins__': {}}, dict(zip(members, values)))
                        except Exception: continue
                members.append(st.targets[0].id); values.append(val)
        bases = [ast.unparse(b) for b in node.bases]
        intv = any(b == 'int' or 'IntEnum' in b or 'IntFlag' in b for b in bases) or all(isinstance(v, int) for v in values) and any('Flag' in b for b in bases)
        ordered = ordered or any('Ordered' in b for b in bases)
        ty = TEnum(name, members, values, ordered=ordered, intvalued=intv)
        self.types[name] = ty; self.enum_src[name] = (rel, cls)
        return ty
    def flagenum(self, name, rel, cls):
        """enum.IntFlag class: values are 64-bit vectors; members read (and evaluated) from the class body"""
        node, _ = repo.find_def(rel, cls)
        members = {}
        for st in node.body:
            if isinstance(st, ast.Assign) and len(st.targets) == 1 and isinstance(st.targets[0], ast.Name) and not st.targets[0].id.startswith('_'):
                if isinstance(st.value, ast.Call) and isinstance(st.value.func, ast.Attribute) and st.value.func.attr == 'auto':
                    hi = max(members.values(), default=0)      # enum.auto() in a Flag: the next power of two above the highest member
                    members[st.targets[0].id] = 1 << hi.bit_length(); continue
                try: members[st.targets[0].id] = int(eval(compile(ast.Expression(st.value), '<flag>', 'eval'), {'__builtins__': {}}, dict(members)))
                except Exception: pass
        self.flag_src[name] = (rel, cls, members); self.types[name] = TFlags
        return members
    def rec(self, name, fields, rel=None, cls=None):
        ty = TRec(name, [(n, self.ty(t)) for n, t in fields])
        self.types[name] = ty
        if rel: self.rec_src[name] = (rel, cls or name)
        return ty
    def any(self, name, truthy=None):
        ty = TAny(name, truthy); self.types[name] = ty; return ty
    def refclass(self, name, fields, rel=None, cls=None, truthy=None, universal=False):
        self.types[name] = TRef(name, truthy, universal); self.classes[name] = dict(fields)
        if rel: self.class_src[name] = (rel, cls or name)
        return self.types[name]
    def refdict(self, name, mapty):
        """a mutable dict modelled as a heap object with identity (field `m` holds the finite map): needed where the code keeps an alias of a
        dict while somebody else may rebind the attribute it came from"""
        self.refclass(name, {'m': mapty}); self.dict_classes[name] = mapty
        def _copy(ex, recv, args, kwargs, node):
            r = ex.alloc(recv.ty); ex.heap_write(r, 'm', ex.heap_read(recv, 'm', ex.w.ty(mapty))); return r
        self.py_methods[(name, 'copy')] = _copy
        for attr in ('get', 'items', 'values', 'keys'):
            def _deleg(ex, recv, args, kwargs, node, attr=attr):
                return ex.call(BoundBuiltin(ex.heap_read(recv, 'm', ex.w.ty(mapty)), attr, None), args, kwargs, node)
            self.py_methods[(name, attr)] = _deleg
        return self.types[name]
    def alias(self, name, tystr): self.types[name] = self.ty(tystr)
    def define(self, sig, expr):
        m = re.match(r'\s*(\w+)\s*\((.*)\)\s*$', sig)
        self.defs[m.group(1)] = ([p.strip() for p in m.group(2).split(',') if p.strip()], expr)
    def ufunc(self, name, args, ret, facts=()):
        """uninterpreted spec function; `facts` are instances of its defining axioms assumed whenever a term
        name(a0, a1, ..) is created (ground instantiation instead of a quantified axiom)"""
        self.ufuncs[name] = (list(args), ret); self.ufunc_facts[name] = list(facts)
    def contract(self, rel, qual, **kw):
        c = Contract(rel, qual, **kw); self.contracts[c.key] = c; return c

    def ty(self, s):
        if isinstance(s, Ty): return s
        s = s.strip()
        if s in self.types: return self.types[s]
        m = re.match(r'(\w+)\[(.*)\]$', s)
        if not m: raise KeyError('unknown type %r' % s)
        head, inner = m.group(1), _split_top(m.group(2))
        if head == 'Opt': return TOpt(self.ty(inner[0]))
        if head == 'Seq': return TSeq(self.ty(inner[0]))
        if head == 'Set': return TSet(self.ty(inner[0]))
        if head == 'Map': return TMap(self.ty(inner[0]), self.ty(inner[1]))
        if head == 'OMap': return TOMap(self.ty(inner[0]), self.ty(inner[1]))
        if head == 'Fun': return TFun(self.ty(inner[0]), self.ty(inner[1]))
        if head == 'Tuple': return TTuple([self.ty(x) for x in inner])
        raise KeyError('unknown type %r' % s)

def _split_top(s):
    out, depth, cur = [], 0, ''
    for ch in s:
        if ch == '[': depth += 1
        if ch == ']': depth -= 1
        if ch == ',' and depth == 0: out.append(cur); cur = ''
        else: cur += ch
    if cur.strip(): out.append(cur)
    return out

# ------------------------------------------------------------------ chooser
class Chooser:
    def __init__(self, prefix=()):
        self.prefix = list(prefix); self.trace = []
    def choose(self, n):
        pos = len(self.trace)
        c = self.prefix[pos] if pos < len(self.prefix) else 0
        self.trace.append((c, n)); return c
    def next_prefix(self):
        t = list(self.trace)
        while t and t[-1][0] >= t[-1][1] - 1: t.pop()
        if not t: return None
        c, n = t.pop()
        return [x[0] for x in t] + [c + 1]

# ------------------------------------------------------------------ obligations
class Obligation:
    def __init__(self, oid, kind, text, tag):
        self.oid, self.kind, self.text, self.tag = oid, kind, text, tag
        self.instances = 0; self.status = 'discharged'; self.model = None; self.seconds = 0.0
        self.backend = 'z3'; self.smt2 = None; self.where = None
    def to_json(self):
        return dict(id=self.oid, kind=self.kind, clause=self.text, tag=self.tag, paths=self.instances,
                    status=self.status, backend=self.backend, seconds=round(self.seconds, 4),
                    model=self.model, where=self.where)

_hq_cache = {}
def has_quant(f):
    k = f.get_id()
    if k in _hq_cache: return _hq_cache[k][1]
    seen = set(); stack = [f]; r = False
    while stack:
        t = stack.pop()
        i = t.get_id()
        if i in seen: continue
        seen.add(i)
        if z3.is_quantifier(t): r = True; break
        stack.extend(t.children())
    _hq_cache[k] = (f, r)      # pin the AST so that its id cannot be reused
    return r

# ------------------------------------------------------------------ state
class State:
    def __init__(self):
        self.env = {}; self.heap = {}; self.alloc = None
    def copy(self):
        s = State(); s.env = dict(self.env); s.heap = dict(self.heap); s.alloc = self.alloc; return s

def _is_const_bool(t):
    return z3.is_true(t) or z3.is_false(t)

MUTATING = {'append', 'add', 'remove', 'discard', 'pop', 'popleft', 'appendleft', 'extend', 'update', 'clear', 'insert',
            'setdefault', 'move_to_end', 'popitem', 'sort', 'reverse', 'difference_update', 'intersection_update'}

class Exec:
    """one symbolic run of one function under one decision prefix"""
    def __init__(self, world, verifier, chooser, timeout_ms):
        self.w = world; self.vf = verifier; self.ch = chooser
        self.solver = z3.Solver(); self.solver.set('timeout', timeout_ms)
        self.ground = z3.Solver(); self.ground.set('timeout', int(os.environ.get('PYVC_GROUND_MS', 300)))     # quantifier-free facts only: fast branch pruning
        self.timeout_ms = timeout_ms
        self.st = State(); self.old = None
        self.spec = 0; self.nofork = 0; self.bseq = 0; self.awaited = set(); self.assumed = {}; self.assumed_stack = []; self.qdepth = 0
        self.facts_log = None       # when not None: list collecting assumed facts (for generalisation)
        self.binders = []           # bound variables in scope (comprehension elements)
        self.exc_stack = []
        self.frames = []            # call frames for name resolution: dict(rel, func node, contract, globals)
        self.call_counts = {}
        self.loop_ordinals = {}
        self.bounded = False
        self.npc = 0
        self.cur_loc = None

    # ---------------- solver plumbing
    def assume(self, f):
        if z3.is_true(f): return
        fid = f.get_id()
        if fid not in self.assumed:
            self.assumed[fid] = f      # (pins the AST) lets prove() discharge a goal that is literally one of the hypotheses
            if self.assumed_stack: self.assumed_stack[-1].append(fid)
        self.solver.add(f); self.npc += 1
        if not has_quant(f): self.ground.add(f)
        if self.facts_log is not None: self.facts_log.append(f)
    def push(self): self.solver.push(); self.ground.push(); self.assumed_stack.append([])
    def pop(self):
        self.solver.pop(); self.ground.pop()
        for fid in self.assumed_stack.pop(): self.assumed.pop(fid, None)
    def feasible(self, f=None, full=False):
        if f is not None and has_quant(f): full = True
        if full:
            # fresh solver: z3's incremental mode is much weaker with quantified facts
            fs = z3.Solver(); fs.set('timeout', 4000)
            fs.add(self.solver.assertions())
            if f is not None: fs.add(f)
            r = fs.check(); self.vf.full_checks += 1
        else:
            r = self.ground.check(f) if f is not None else self.ground.check()
        return r != z3.unsat
    def branch(self, cond, exceptional=False):
        c = z3.simplify(cond)
        if z3.is_true(c): return True
        if z3.is_false(c): return False
        # paths are re-executed from the start for every decision prefix: the same feasibility questions recur.
        # They are memoised by (decisions taken so far, ordinal of this branch point, nofork/spec context).
        self.bseq += 1
        key = (tuple(x[0] for x in self.ch.trace), self.bseq, bool(self.nofork or self.spec), bool(exceptional))
        cache = self.vf.feas_cache
        if key in cache:
            ft, ff = cache[key]
        else:
            ft = self.feasible(c); ff = self.feasible(z3.Not(c))
            if ft and ff and (exceptional or self.nofork or self.spec) and self.has_quant_facts():
                # the quantified facts (preconditions, invariants) may rule a side out
                if exceptional: ft = self.feasible(c, full=True)
                else: ft = self.feasible(c, full=True); ff = self.feasible(z3.Not(c), full=True)
            cache[key] = (ft, ff)
        if ft and not ff: return True
        if ff and not ft: return False
        if not ft and not ff: raise Infeasible()
        if self.spec: raise Unsupported('fork inside a specification expression')
        if self.nofork: raise NeedFork()
        if self.ch.choose(2) == 0:
            self.assume(c); return True
        self.assume(z3.Not(c)); return False
    def has_quant_facts(self):
        return len(self.solver.assertions()) != len(self.ground.assertions())
    def choose(self, n):
        if self.nofork or self.spec: raise NeedFork()
        return self.ch.choose(n)
    def fresh_name(self, p): return p

    def prove(self, f, oid, kind, text, tag='auxiliary'):
        self.vf.prove(self, f, oid, kind, text, tag)
        self.assume(f)

    # ---------------- frames / name resolution
    @property
    def frame(self): return self.frames[-1]

    def lookup(self, name, node=None):
        env = self.st.env
        if name in env: return env[name]
        fr = self.frame
        if name in fr.get('extra', {}): return fr['extra'][name]
        if self.spec:
            if name in self.w.defs or name in self.w.ufuncs or name in SPEC_BUILTINS: return SpecFn(name)
            if name in self.w.flag_src: return FlagNS(name)
            if name in self.w.types and name not in BUILTINS: return TypeObj(self.w.types[name])
        # enclosing function closures (state vars live in env already)
        if name in fr.get('local_funcs', {}): return fr['local_funcs'][name]
        if fr.get('class_scope') is not None:
            for st in fr['class_scope'].body:
                if isinstance(st, ast.Assign) and len(st.targets) == 1 and isinstance(st.targets[0], ast.Name) and st.targets[0].id == name:
                    return self.eval(st.value)
        fn = fr.get('func')
        if fn is not None and fn.name == name and fr.get('contract') is not None and '<locals>' in fr['contract'].qual:
            return FuncRef(fr['rel'], fr['contract'].qual, fn)      # a nested function calling itself
        return self.lookup_module(fr['rel'], name)

    def lookup_module(self, rel, name):
        if name in self.w.builtin_alias: return BuiltinRef(self.w.builtin_alias[name])
        m = repo.module(rel)
        if name in m.funcs: return FuncRef(rel, name, m.funcs[name])
        if name in m.classes: return self.class_obj(rel, name)
        if name in m.assigns:
            key = (rel, name)
            if key not in self.vf.modconst:
                saved = self.frames, self.st
                self.frames = [dict(rel=rel, func=None, contract=None)]; self.st = State()
                try: self.vf.modconst[key] = self.eval(m.assigns[name])
                finally: self.frames, self.st = saved
            return self.vf.modconst[key]
        if name in m.imports:
            imp = m.imports[name]
            if imp[0] == 'module':
                info = repo.module_by_dotted(imp[1])
                return ModuleRef(imp[1], info)
            base, nm = imp[1], imp[2]
            info = repo.module_by_dotted(base + '.' + nm)
            if info is not None: return ModuleRef(base + '.' + nm, info)
            info = repo.module_by_dotted(base)
            if info is not None:
                try: return self.lookup_module(info.relpath, nm)
                except Unsupported:
                    if info.relpath.endswith('__init__.py'): return BuiltinRef(base + '.' + nm)      # a compiled (Cython) submodule of a package: outside reach
                    raise
            return BuiltinRef(base + '.' + nm)       # a name imported from outside the repository
        if name in BUILTIN_EXC: return ExcClass(name)
        if name in BUILTINS: return BuiltinRef(name)
        if name in self.w.defs or name in self.w.ufuncs or name in SPEC_BUILTINS: return SpecFn(name)
        if name in self.w.types: return TypeObj(self.w.types[name])
        raise Unsupported('unresolved name %r in %s' % (name, rel))

    def lookup_nested(self, rel, qual):
        node, cls = repo.find_def(rel, qual)
        return FuncRef(rel, qual, node, cls)

    def class_obj(self, rel, name):
        m = repo.module(rel); node = m.classes[name]
        if self.is_exc_class(rel, node): return ExcClass(name)
        return ClassRef(rel, name, node)

    def is_exc_class(self, rel, node):
        for b in node.bases:
            bn = ast.unparse(b).split('.')[-1]
            if bn in BUILTIN_EXC or bn.endswith('Error') or bn.endswith('Exception'):
                if bn not in BUILTIN_EXC:
                    self.vf.exc_parent.setdefault(node.name, bn)
                    # try to resolve parent chain inside module
                    m = repo.module(rel)
                    if bn in m.classes: self.is_exc_class(rel, m.classes[bn])
                    else: self.vf.exc_parent.setdefault(bn, 'Exception')
                else:
                    self.vf.exc_parent.setdefault(node.name, bn)
                return True
        return False

    def exc_isinstance(self, cls, target):
        seen = 0
        while cls is not None and seen < 50:
            if cls == target: return True
            cls = self.vf.exc_parent.get(cls, BUILTIN_EXC.get(cls, 'Exception' if cls not in ('BaseException',) else None))
            seen += 1
        return False

    def type_for_class(self, rel, name):
        """sidecar type declared for a repo class, if any"""
        for tn, (r, c) in list(self.w.enum_src.items()) + list(self.w.rec_src.items()) + list(self.w.class_src.items()):
            if c == name and (r == rel or True):
                if r == rel: return self.w.types[tn]
        for tn, (r, c) in list(self.w.enum_src.items()) + list(self.w.rec_src.items()) + list(self.w.class_src.items()):
            if c == name: return self.w.types[tn]
        return None

    def class_of_type(self, ty):
        """(rel, classnode) of the repo class behind a declared type"""
        src = None
        if isinstance(ty, TEnum): src = self.w.enum_src.get(ty.name)
        elif isinstance(ty, TRec): src = self.w.rec_src.get(ty.name)
        elif isinstance(ty, TRef): src = self.w.class_src.get(ty.cls)
        if not src: return None
        rel, cls = src
        node, _ = repo.find_def(rel, cls)
        return rel, node

    def find_method(self, rel, clsnode, name, depth=0):
        for st in clsnode.body:
            if isinstance(st, (ast.FunctionDef, ast.AsyncFunctionDef)) and st.name == name:
                return rel, clsnode, st
        if depth > 6: return None
        m = repo.module(rel)
        for b in clsnode.bases:
            if isinstance(b, ast.Subscript): b = b.value      # Generic base: BasePool[C]
            bn = ast.unparse(b)
            try:
                obj = self.lookup_module(rel, bn.split('.')[0])
                for part in bn.split('.')[1:]:
                    obj = self.getattr_obj(obj, part)
            except (Unsupported, KeyError):
                continue
            if isinstance(obj, ClassRef):
                r = self.find_method(obj.rel, obj.node, name, depth + 1)
                if r: return r
        return None

    # ---------------- expressions
    def eval(self, node):
        if self.w.opaque_exprs and isinstance(node, (ast.Attribute, ast.Name, ast.Subscript, ast.Call, ast.Tuple)):
            txt = ast.unparse(node)
            if txt in self.w.opaque_exprs:
                ty = self.w.ty(self.w.opaque_exprs[txt])
                self.vf.note_assumption('expression `%s` treated as an opaque constant of type %s' % (txt, ty))
                return unpack(z3.Const('opq_' + ''.join(ch if ch.isalnum() else '_' for ch in txt), sort_of(ty)), ty)
        meth = getattr(self, 'e_' + type(node).__name__, None)
        if meth is None: raise Unsupported('expression %s' % type(node).__name__)
        return meth(node)

    def e_Constant(self, n):
        v = n.value
        if v is None: return NONE
        if isinstance(v, bool): return vbool(v)
        if isinstance(v, int): return vint(v)
        if isinstance(v, str): return vstr(v)
        if isinstance(v, float): return V(TFloat, z3.RealVal(repr(v)))
        if isinstance(v, bytes): return V(TBytes, zs(v.decode('latin-1')))
        if v is Ellipsis: return NONE
        raise Unsupported('constant %r' % (v,))

    def e_Name(self, n): return self.lookup(n.id, n)

    def e_Tuple(self, n):
        if any(isinstance(e, ast.Starred) for e in n.elts):
            seq = None; items = []
            def flush(seq, items):
                if not items: return seq
                lit = seq_literal(items, T._join_all([i.ty for i in items] + ([seq.ty.elem] if seq is not None else [])))
                return lit if seq is None else self.seq_concat(seq, lit)
            for e in n.elts:
                if isinstance(e, ast.Starred):
                    seq = flush(seq, items); items = []
                    sv = self.iter_of(self.eval(e.value)); sv = self.materialize(sv)
                    seq = sv if seq is None else self.seq_concat(seq, sv)
                else: items.append(self.val(self.eval(e)))
            return flush(seq, items)
        raw = [self.eval(e) for e in n.elts]
        if raw and all(isinstance(x, (ClassRef, ExcClass, BuiltinRef, TypeObj)) for x in raw):
            return raw      # a tuple of classes (isinstance / except clauses)
        vals = [self.val(x) for x in raw]
        return V(TTuple([v.ty for v in vals]), vals)

    def e_List(self, n):
        if any(isinstance(e, ast.Starred) for e in n.elts):
            # [a, *xs, b, *ys]: concatenation of literal runs and the starred sequences
            acc = None; run = []
            def flush(acc, run):
                if not run: return acc
                lit = seq_literal(run, T._join_all([v.ty for v in run]))
                return lit if acc is None else self.seq_concat(acc, lit)
            for e in n.elts:
                if isinstance(e, ast.Starred):
                    acc = flush(acc, run); run = []
                    sv = self.materialize(self.iter_of(self.eval(e.value)))
                    acc = sv if acc is None else self.seq_concat(acc, sv)
                else: run.append(self.val(self.eval(e)))
            return flush(acc, run)
        vals = [self.val(self.eval(e)) for e in n.elts]
        if not vals:
            hint = self.frame.get('empty_hint')
            return V(TTuple([]), [])     # typed lazily on first join / append
        ety = T._join_all([v.ty for v in vals])
        return seq_literal(vals, ety)

    def e_Set(self, n):
        vals = [self.val(self.eval(e)) for e in n.elts]
        ety = T._join_all([v.ty for v in vals])
        mem = empty_set_term(ety)
        for v in vals: mem = z3.Store(mem, pack(coerce(v, ety)), True)
        card = T.card_fn(mem)
        for f in set_facts(mem, card, TSet(ety)): self.assume(f)
        self.assume(card <= len(vals))
        if len(vals) == 1: self.assume(card == 1)
        return V(TSet(ety), (mem, card))

    def e_Dict(self, n):
        if n.keys and all(k is None for k in n.keys):
            # {**m1, **m2, ...} over finite maps: the union of the domains, a later map overriding an earlier one
            ms = [self.val(self.eval(v)) for v in n.values]
            if not all(isinstance(m_.ty, TMap) for m_ in ms): raise Unsupported('dict unpacking of a non-map')
            kty = T._join_all([m_.ty.k for m_ in ms]); vty = T._join_all([m_.ty.v for m_ in ms])
            ms = [coerce(m_, TMap(kty, vty)) for m_ in ms]
            dom, val = ms[0].t[0], ms[0].t[1]
            x_ = z3.Const('du!', sort_of(kty))
            for m_ in ms[1:]:
                val = z3.Lambda([x_], z3.If(z3.Select(m_.t[0], x_), z3.Select(m_.t[1], x_), z3.Select(val, x_))); dom = z3.SetUnion(dom, m_.t[0])
            card = T.card_fn(dom)
            for f in set_facts(dom, card, TSet(kty)): self.assume(f)
            return V(TMap(kty, vty), (dom, val, card))
        if any(k is None for k in n.keys): raise Unsupported('dict unpacking mixed with literal items')
        ks = [self.val(self.eval(k)) for k in n.keys]; vs = [self.val(self.eval(v)) for v in n.values]
        if not ks: return V(TTuple([]), [])     # empty, typed on assignment via var_types / first store
        kty = T._join_all([k.ty for k in ks]); vty = T._join_all([v.ty for v in vs])
        dom = empty_set_term(kty); val = z3.K(sort_of(kty), pack(default_value(vty)))
        for k, v in zip(ks, vs):
            kt = pack(coerce(k, kty)); dom = z3.Store(dom, kt, True); val = z3.Store(val, kt, pack(coerce(v, vty)))
        card = T.card_fn(dom)
        for f in set_facts(dom, card, TSet(kty)): self.assume(f)
        return V(TMap(kty, vty), (dom, val, card))

    def e_JoinedStr(self, n):
        parts = []
        for p in n.values:
            if isinstance(p, ast.Constant): parts.append(vstr(p.value))
            else:
                try: v = self.val(self.eval(p.value))
                except Unsupported:
                    self.vf.note_assumption('f-string operand outside the subset treated as an arbitrary string (message text only)')
                    parts.append(V(TStr, fresh('fmt', z3.StringSort()))); continue
                if p.format_spec is not None or p.conversion not in (-1, 115):
                    cv = self.const_py(v)
                    if cv is not None and (p.format_spec is None or all(isinstance(x, ast.Constant) for x in p.format_spec.values)):
                        spec = ''.join(x.value for x in p.format_spec.values) if p.format_spec is not None else ''
                        conv = {-1: '', 115: '!s', 114: '!r', 97: '!a'}[p.conversion]
                        parts.append(vstr(('{0' + conv + ':' + spec + '}').format(cv[0]))); continue
                    v = V(TStr, fresh('fmt', z3.StringSort()))   # opaque formatted text
                    self.vf.note_assumption('f-string with format spec/conversion treated as an arbitrary string')
                else: v = self.to_str(v)
                parts.append(v)
        if not parts: return vstr('')
        t = parts[0].t
        for p in parts[1:]: t = z3.Concat(t, p.t)
        return V(TStr, t)

    def const_py(self, v):
        """(python value,) if v is a compile-time constant int / str / bool, else None"""
        if not isinstance(v, V): return None
        t = z3.simplify(v.t) if v.ty in (TInt, TStr, TBool) else None
        if t is None: return None
        if v.ty is TInt and z3.is_int_value(t): return (t.as_long(),)
        if v.ty is TStr and z3.is_string_value(t):
            from .strlib import _unescape_z3
            return (_unescape_z3(t.as_string()),)
        if v.ty is TBool and (z3.is_true(t) or z3.is_false(t)): return (z3.is_true(t),)
        return None

    def to_str(self, v):
        if v.ty is TStr: return v
        if v.ty is TInt: return V(TStr, z3.IntToStr(v.t)) if False else self.int_to_str(v)
        if isinstance(v.ty, TEnum) and all(isinstance(x, str) for x in v.ty.values):
            r = zs(v.ty.values[-1])
            for m, val in list(zip(v.ty.members, v.ty.values))[-2::-1]:
                r = z3.If(v.t == v.ty.const(m), zs(val), r)
            return V(TStr, r)
        self.vf.note_assumption('str() of %r treated as an arbitrary string' % v.ty)
        return V(TStr, fresh('str', z3.StringSort()))

    def int_to_str(self, v):
        # z3 int.to.str is defined for non-negative ints only
        t = v.t
        # library lemma (cross-checked natively): str(n) for n >= 0 is a non-empty string of ASCII digits
        self.vf.note_assumption('library lemma: str(n) of a non-negative int is a non-empty ASCII digit string whose int() is n')
        self.assume(z3.Implies(t >= 0, z3.And(z3.InRe(z3.IntToStr(t), z3.Plus(z3.Range('0', '9'))), z3.StrToInt(z3.IntToStr(t)) == t)))
        if not self.feasible(t < 0): return V(TStr, z3.IntToStr(t))
        return V(TStr, z3.If(t >= 0, z3.IntToStr(t), z3.Concat(zs('-'), z3.IntToStr(-t))))

    def val(self, x):
        """require a symbolic value"""
        if isinstance(x, V): return x
        if isinstance(x, ExcV): return V(TExc, x)
        if isinstance(x, IterV): return self.materialize(x)
        raise Unsupported('value expected, got %s' % type(x).__name__)

    def materialize(self, it):
        """IterV -> Seq value via a lambda array"""
        i = fresh('mi', z3.IntSort())
        elem = self.pure_elem(it, i)
        ety = it.ety or elem.ty
        arr = z3.Lambda([i], pack(coerce(elem, ety)))
        return V(TSeq(ety), (it.ln, arr))

    def pure_elem(self, it, i):
        """evaluate element i of a virtual sequence for an arbitrary in-range i, without forking;
        facts learnt are generalised (forall i in range)"""
        self.push()
        saved_log = self.facts_log; self.facts_log = []
        self.nofork += 1; self.binders.append(i)
        try:
            self.solver.add(i >= 0, i < it.ln); self.ground.add(i >= 0, i < it.ln)
            try:
                elem = self.val(it.get(i))
            except NeedFork:
                raise Unsupported('comprehension/iterator element needs a fork (possible exception or branch on element)')
            facts = self.facts_log
        finally:
            self.nofork -= 1; self.binders.pop(); self.facts_log = saved_log
            self.pop()
        if facts:
            self.assume(z3.ForAll([i], z3.Implies(z3.And(i >= 0, i < it.ln), z3.And(*facts))))
        return elem

    def truth_of(self, v):
        if isinstance(v, KwDict): return z3.BoolVal(bool(v.items))
        """truth value of v; for collection values the facts tying emptiness to the cardinality are made available first
        (values read out of containers or returned by outside code carry none)"""
        if isinstance(v, V) and isinstance(v.ty, (TSet, TMap, TSeq, TOMap, TOpt)) and not self.spec:
            for f in T.type_facts(v): self.assume(f)
        return truth(v)

    def e_BoolOp(self, n):
        is_and = isinstance(n.op, ast.And)
        cur = self.eval(n.values[0])
        for nxt in n.values[1:]:
            cur = self.val(cur)
            c = z3.simplify(self.truth_of(cur))
            go = c if is_and else z3.Not(c)     # condition under which the next operand is evaluated
            go = z3.simplify(go)
            if z3.is_false(go): return cur
            if z3.is_true(go): cur = self.eval(nxt); continue
            if self.spec:
                r = self.val(self.eval(nxt))
                cur = vite(go, r, cur); continue
            # code mode: speculative pure evaluation under the guard, else fork
            r = self.try_pure(lambda: self.val(self.eval(nxt)), guard=go)
            if r is not None:
                try: cur = vite(go, r, cur)
                except Unsupported:      # operands of unrelated types (`seq and flag`): only the truth value is meaningful
                    cur = vite(go, vbool(truth(r)), vbool(truth(cur)))
            else:
                if self.branch(go): cur = self.eval(nxt)
                else: return cur
        return cur

    def try_pure(self, thunk, guard=None):
        """evaluate thunk speculatively: no forks, no side effects; returns None if it needed either"""
        saved = self.st.copy(); saved_npc = self.npc
        self.push(); self.nofork += 1
        saved_log = self.facts_log; self.facts_log = []
        ok = False
        try:
            if guard is not None: self.solver.add(guard); self.ground.add(guard)
            try:
                r = thunk(); ok = True
            except (NeedFork, RaiseSig):
                r = None
            except Infeasible:
                # under a guard, an infeasible speculative evaluation only says that the guard cannot hold here: let the caller decide by an explicit branch
                # (it used to end the whole path, which silently dropped the feasible other arm -- e.g. `x.a if x else y` with x known to be None)
                if guard is None: raise
                r = None
            facts = self.facts_log
        finally:
            self.nofork -= 1; self.facts_log = saved_log
            self.pop()
        if not ok or not self._same_state(saved):
            self.st = saved; return None
        for f in facts:
            self.assume(z3.Implies(guard, f) if guard is not None else f)
        return r

    def _same_state(self, saved):
        a, b = self.st, saved
        if a.env.keys() != b.env.keys() or a.heap.keys() != b.heap.keys(): return False
        return all(a.env[k] is b.env[k] for k in a.env) and all(a.heap[k] is b.heap[k] for k in a.heap) and a.alloc is b.alloc

    def e_UnaryOp(self, n):
        v = self.val(self.eval(n.operand))
        if isinstance(n.op, ast.Not): return vbool(z3.Not(self.truth_of(v)))
        if isinstance(n.op, ast.USub):
            if v.ty in (TInt, TBool): return vint(-coerce(v, TInt).t)
            if v.ty is TFloat: return V(TFloat, -v.t)
        if isinstance(n.op, ast.UAdd) and v.ty in (TInt, TFloat): return v
        if isinstance(n.op, ast.Invert) and v.ty is TFlags: return V(TFlags, ~v.t)
        raise Unsupported('unary %s on %r' % (type(n.op).__name__, v.ty))

    def e_DictComp(self, n): return self.kwdict_of(n)

    def map_comprehension(self, node, g):
        """{k: f(k) for k in m}  /  {k: f(k) for k in itertools.chain(m1, m2, ...)}  over finite maps, key expression = the loop variable, f pure:
        the result is the finite map whose domain is the union of the domains and whose value at k is f(k)"""
        if not (isinstance(g.target, ast.Name) and isinstance(node.key, ast.Name) and node.key.id == g.target.id): return None
        srcs = [g.iter]
        if isinstance(g.iter, ast.Call) and ast.unparse(g.iter.func) in ('itertools.chain', 'chain') and not g.iter.keywords: srcs = list(g.iter.args)
        maps = []
        for sn_ in srcs:
            try: mv = self.val(self.eval(sn_))
            except Unsupported: return None
            if not isinstance(mv.ty, TMap): return None
            maps.append(mv)
        kty = T._join_all([m_.ty.k for m_ in maps])
        dom = maps[0].t[0]
        for m_ in maps[1:]: dom = z3.SetUnion(dom, m_.t[0])
        kc = fresh('ck', sort_of(kty))
        saved = dict(self.st.env)
        self.nofork += 1; self.binders.append(kc)
        try:
            self.st.env[g.target.id] = unpack(kc, kty)
            try: val = self.val(self.eval(node.value))
            except NeedFork: raise Unsupported('dict comprehension whose value expression needs a fork')
        finally:
            self.nofork -= 1; self.binders.pop(); self.st.env = saved
        arr = z3.Lambda([kc], pack(val))
        card = T.card_fn(dom)
        for f_ in T.set_facts(dom, card, TSet(kty)): self.assume(f_)
        return V(TMap(kty, val.ty), (dom, arr, card))

    def e_IfExp(self, n):
        c = z3.simplify(self.truth_of(self.val(self.eval(n.test))))
        if z3.is_true(c): return self.eval(n.body)
        if z3.is_false(c): return self.eval(n.orelse)
        if self.spec:
            return vite(c, self.val(self.eval(n.body)), self.val(self.eval(n.orelse)))
        def pv(nd):
            x = self.eval(nd)
            if isinstance(x, PyObj): raise NeedFork()      # python-level objects (regexes, classes) cannot be merged: fork
            return self.val(x)
        a = self.try_pure(lambda: pv(n.body), guard=c)
        b = self.try_pure(lambda: pv(n.orelse), guard=z3.Not(c)) if a is not None else None
        if a is not None and b is not None: return vite(c, a, b)
        if self.branch(c): return self.eval(n.body)
        return self.eval(n.orelse)

    def e_NamedExpr(self, n):
        v = self.eval(n.value); self.assign(n.target, v); return v

    def e_Lambda(self, n): return LambdaV(n, dict(self.st.env))
    def e_Await(self, n):
        # cooperative scheduling: awaiting a coroutine with a contract is a call; environment awaitables are handled by their contracts
        if isinstance(n.value, ast.Call):
            self.awaited.add(id(n.value))
        v = self.eval(n.value)
        if isinstance(v, CoroV): raise Unsupported('await of a stored coroutine object')
        if isinstance(v, V) and isinstance(v.ty, TRef) and (v.ty.cls + '.__await__') in self.w.ext_methods:
            return self.ext_call(ExtMethod(v, v.ty.cls + '.__await__'), [], {}, n)      # awaiting an awaitable object: a yield point
        return v

    def e_Compare(self, n):
        left = self.eval(n.left); res = None
        for op, rn in zip(n.ops, n.comparators):
            right = self.eval(rn)
            c = self.compare(op, left, right)
            res = c if res is None else z3.And(res, c)
            left = right
        return vbool(res)

    def compare(self, op, a, b):
        if isinstance(op, (ast.Is, ast.IsNot)):
            r = self.is_same(a, b)
            return r if isinstance(op, ast.Is) else z3.Not(r)
        if isinstance(op, (ast.In, ast.NotIn)) and isinstance(b, KwDict):
            r = z3.BoolVal(self.const_str(a) in b.items)
            return r if isinstance(op, ast.In) else z3.Not(r)
        if isinstance(op, (ast.In, ast.NotIn)) and isinstance(b, MapIterV) and isinstance(b.m.ty, TMap) and b.kind in ('values', 'keys'):
            x_ = self.val(a)
            if b.kind == 'keys': r = self.contains(b.m, x_)
            else:
                kc = fresh('sk', sort_of(b.m.ty.k))
                r = z3.Exists([kc], z3.And(z3.Select(b.m.t[0], kc), veq(unpack(z3.Select(b.m.t[1], kc), b.m.ty.v), x_)))
            return r if isinstance(op, ast.In) else z3.Not(r)
        if isinstance(op, (ast.In, ast.NotIn)):
            r = self.contains(self.val(b) if not isinstance(b, IterV) else b, self.val(a))
            return r if isinstance(op, ast.In) else z3.Not(r)
        a = self.val(a); b = self.val(b)
        # an opaque (TAny) value compared with a string literal: the literal denotes one fixed element of the opaque type
        if isinstance(a.ty, TAny) and b.ty is TStr and z3.is_string_value(z3.simplify(b.t)):
            b = V(a.ty, z3.Const('strlit_%s_%s' % (a.ty.name, z3.simplify(b.t).as_string().encode().hex()), sort_of(a.ty)))
        elif isinstance(b.ty, TAny) and a.ty is TStr and z3.is_string_value(z3.simplify(a.t)):
            a = V(b.ty, z3.Const('strlit_%s_%s' % (b.ty.name, z3.simplify(a.t).as_string().encode().hex()), sort_of(b.ty)))
        for x, y in ((a, b), (b, a)):
            if isinstance(x.ty, TRef) and x.ty.universal and y.ty in (TStr, TInt, TBool):
                for fct in T.box_facts(y, T.box_term(y)): self.assume(fct)
        if isinstance(op, ast.Eq): return veq(a, b)
        if isinstance(op, ast.NotEq): return z3.Not(veq(a, b))
        x, y = self.ord_terms(a, b)
        if isinstance(op, ast.Lt): return x < y
        if isinstance(op, ast.LtE): return x <= y
        if isinstance(op, ast.Gt): return x > y
        if isinstance(op, ast.GtE): return x >= y
        raise Unsupported('compare op')

    def ord_terms(self, a, b):
        if isinstance(a.ty, TOpt) and not isinstance(b.ty, TOpt): a = self.co(a, a.ty.inner)      # None in an ordering comparison raises TypeError
        if isinstance(b.ty, TOpt) and not isinstance(a.ty, TOpt): b = self.co(b, b.ty.inner)
        def num(v):
            if v.ty in (TInt, TBool): return coerce(v, TInt).t
            if v.ty is TFloat: return v.t
            if isinstance(v.ty, TEnum) and v.ty.intvalued: return v.ty.value_term(v.t)
            return None
        x, y = num(a), num(b)
        if x is not None and y is not None:
            if x.sort() != y.sort():
                x = z3.ToReal(x) if x.sort() == z3.IntSort() else x
                y = z3.ToReal(y) if y.sort() == z3.IntSort() else y
            return x, y
        if isinstance(a.ty, TEnum) and a.ty == b.ty and a.ty.ordered:
            return a.ty.index_term(a.t), a.ty.index_term(b.t)
        if isinstance(a.ty, TTuple) and isinstance(b.ty, TTuple) and len(a.t) == len(b.t) and a.t:
            # lexicographic order encoded as an integer rank comparison:  a < b  iff  lex(a, b)
            lt = z3.BoolVal(False); eq = z3.BoolVal(True)
            for x, y in zip(a.t, b.t):
                xs, ys = self.ord_terms(x, y)
                lt = z3.Or(lt, z3.And(eq, xs < ys)); eq = z3.And(eq, xs == ys)
            return z3.If(lt, z3.IntVal(0), z3.If(eq, z3.IntVal(1), z3.IntVal(2))), z3.IntVal(1)
        if a.ty is TStr and b.ty is TStr:
            raise Unsupported('string ordering')
        raise Unsupported('ordering between %r and %r' % (a.ty, b.ty))

    def is_same(self, a, b):
        if isinstance(a, PyObj) or isinstance(b, PyObj):
            if isinstance(a, TypeObj) and isinstance(b, TypeObj): return z3.BoolVal(a.ty == b.ty)
            if isinstance(a, ClassRef) and isinstance(b, ClassRef): return z3.BoolVal(a.name == b.name)
            raise Unsupported('`is` on python-level objects')
        a = self.val(a); b = self.val(b)
        ta, tb = a.ty, b.ty
        if ta is T.TMatch or tb is T.TMatch: return veq(a, b)
        if ta is TNone or tb is TNone or ta is TBool or tb is TBool or isinstance(ta, (TEnum, TRef, TAny)) or isinstance(tb, (TEnum, TRef, TAny)):
            return veq(a, b)
        if isinstance(ta, TOpt) or isinstance(tb, TOpt):
            ia = ta.inner if isinstance(ta, TOpt) else ta; ib = tb.inner if isinstance(tb, TOpt) else tb
            if isinstance(ia, (TEnum, TRef, TAny)) or ia is TBool or isinstance(ib, (TEnum, TRef, TAny)) or ib is TBool:
                return veq(a, b)
        if isinstance(ta, (TMap, TSet, TSeq, TRec, TTuple)) and isinstance(tb, (TMap, TSet, TSeq, TRec, TTuple)) and not self.spec:
            # identity of immutable values (persistent maps, tuples ...) is not modelled: `a is b` is an unknown boolean that implies a == b
            self.vf.note_assumption('`is` between immutable values (maps / tuples) is an arbitrary boolean that implies equality')
            b_ = fresh('same', z3.BoolSort())
            try: self.assume(z3.Implies(b_, veq(a, b)))
            except Unsupported: pass
            return b_
        IMM = (TMap, TSet, TSeq, TRec, TTuple)
        if not self.spec and (isinstance(ta, IMM) or (isinstance(ta, TOpt) and isinstance(ta.inner, IMM))) and (isinstance(tb, IMM) or (isinstance(tb, TOpt) and isinstance(tb.inner, IMM))):
            # the same with an optional operand (e.g. the result of dict.get): identical implies "neither is None and the values are equal", or both None
            self.vf.note_assumption('`is` between immutable values (maps / tuples) is an arbitrary boolean that implies equality')
            b_ = fresh('same', z3.BoolSort())
            try: self.assume(z3.Implies(b_, veq(a, b)))
            except Unsupported: pass
            return b_
        raise Unsupported('`is` on values of type %r / %r (identity of immutable values is not modelled)' % (ta, tb))

    def contains(self, c, x):
        if isinstance(c, IterV): c = self.materialize(c)
        ty = c.ty
        if isinstance(ty, TRef) and ty.cls in self.w.dict_classes:
            return self.contains(self.heap_read(c, 'm', self.w.ty(self.w.dict_classes[ty.cls])), x)
        if isinstance(ty, (TSet, TMap, TOMap)) and isinstance(x.ty, TTuple) and any(isinstance(e.ty, TOpt) for e in x.t):
            kty_ = ty.elem if isinstance(ty, TSet) else ty.k
            if isinstance(kty_, TTuple) and len(kty_.items) == len(x.t):
                # a tuple key with optional components against a container of tuples with non-optional ones: a None component is no member, otherwise the values are compared
                conds = []; items = []
                for e, kt in zip(x.t, kty_.items):
                    if isinstance(e.ty, TOpt) and not isinstance(kt, TOpt): conds.append(z3.Not(e.t[0])); items.append(e.t[1])
                    else: items.append(e)
                x2 = V(TTuple([i_.ty for i_ in items]), items)
                if conds and self._coercible(x2, kty_): return z3.And(*(conds + [self.contains(c, x2)]))
        if isinstance(ty, (TSet, TMap, TOMap)) and isinstance(x.ty, TOpt):
            kty_ = ty.elem if isinstance(ty, TSet) else ty.k
            if not isinstance(kty_, TOpt) and self._coercible(x.t[1], kty_):
                # an optional value tested against a container of non-optional keys: None is not a member, otherwise membership of the value
                # (this used to fall into the "incomparable types: False" case below and made the whole test constant False -- soundness fix)
                return z3.And(z3.Not(x.t[0]), self.contains(c, x.t[1]))
        if isinstance(ty, TSet): return z3.Select(c.t[0], pack(coerce(x, ty.elem))) if self._coercible(x, ty.elem) else z3.BoolVal(False)
        if isinstance(ty, TMap): return z3.Select(c.t[0], pack(coerce(x, ty.k))) if self._coercible(x, ty.k) else z3.BoolVal(False)
        if isinstance(ty, TOMap): return T.omap_member(c, pack(coerce(x, ty.k))) if self._coercible(x, ty.k) else z3.BoolVal(False)
        if isinstance(ty, TTuple):
            return z3.Or(*[veq(e, x) for e in c.t]) if c.t else z3.BoolVal(False)
        if isinstance(ty, TSeq):
            i = fresh('qi', z3.IntSort())
            return z3.Exists([i], z3.And(i >= 0, i < c.t[0], veq(seq_get(c, i), x)))
        if ty is TStr and x.ty is TStr:
            xs = z3.simplify(x.t)
            if z3.is_string_value(xs) and not z3.is_string_value(z3.simplify(c.t)):
                # constant needle: the regular-language form  c in .* x .*  (decided by the regex solver together with other memberships on c)
                any_ = z3.Star(z3.AllChar(z3.ReSort(z3.StringSort())))
                return z3.InRe(c.t, z3.Concat(any_, z3.Re(xs), any_))
            return z3.Contains(c.t, x.t)
        if isinstance(ty, TOpt):
            raise Unsupported('`in` on optional container')
        raise Unsupported('`in` on %r' % ty)

    def _coercible(self, x, ty):
        try: coerce(x, ty); return True
        except Unsupported: return False

    def e_BinOp(self, n):
        ra = self.eval(n.left); rb = self.eval(n.right)
        cls_like = lambda x: isinstance(x, (ClassRef, ExcClass, BuiltinRef, TypeObj)) or (isinstance(x, list) and all(isinstance(y, PyObj) for y in x))
        if isinstance(n.op, ast.BitOr) and cls_like(ra) and cls_like(rb):
            return (ra if isinstance(ra, list) else [ra]) + (rb if isinstance(rb, list) else [rb])      # X | Y union of classes
        def keyset(x):      # the keys view of a finite map used in set algebra: the set of its keys
            if isinstance(x, MapIterV) and x.kind == 'keys': return V(TSet(x.m.ty.k), (x.m.t[0], x.m.t[2]))
            return x
        a = self.val(keyset(ra)); b = self.val(keyset(rb))
        return self.binop(n.op, a, b, n)

    def binop(self, op, a, b, node=None):
        opname = type(op).__name__
        if isinstance(a.ty, TOpt) and not self.spec: a = self.co(a, a.ty.inner)      # None as an operand raises TypeError
        if isinstance(b.ty, TOpt) and not self.spec: b = self.co(b, b.ty.inner)
        # user-defined dunder on enum / rec classes
        dunder = {'Add': '__add__', 'Mult': '__mul__', 'Sub': '__sub__', 'BitOr': '__or__', 'BitAnd': '__and__'}.get(opname)
        if dunder and isinstance(a.ty, (TEnum, TRec, TRef)):
            src = self.class_of_type(a.ty)
            if src:
                m = self.find_method(src[0], src[1], dunder)
                if m: return self.call_func(FuncRef(m[0], m[1].name + '.' + dunder, m[2], cls=m[1]), [a, b], {}, node)
        if isinstance(a.ty, TRef) and a.ty.universal or isinstance(b.ty, TRef) and b.ty.universal:
            # arithmetic / set algebra on opaque objects: an uninterpreted function of both operands
            u = a.ty if isinstance(a.ty, TRef) and a.ty.universal else b.ty
            self.vf.note_assumption('operator %s on opaque objects is uninterpreted' % opname)
            return V(u, z3.Function('obj_' + opname + '_' + ''.join(ch if ch.isalnum() else '_' for ch in (a.ty.key + b.ty.key)), sort_of(a.ty), sort_of(b.ty), sort_of(u))(pack(a), pack(b)))
        if isinstance(a.ty, TEnum) and a.ty.intvalued: a = coerce(a, TInt)
        if isinstance(b.ty, TEnum) and b.ty.intvalued: b = coerce(b, TInt)
        if a.ty is TBool and opname not in ('BitOr', 'BitAnd', 'BitXor'): a = coerce(a, TInt)
        if b.ty is TBool and opname not in ('BitOr', 'BitAnd', 'BitXor'): b = coerce(b, TInt)
        if a.ty is TInt and b.ty is TInt:
            x, y = a.t, b.t
            if opname == 'Add': return vint(x + y)
            if opname == 'Sub': return vint(x - y)
            if opname == 'Mult': return vint(x * y)
            if opname in ('FloorDiv', 'Mod'):
                if self.branch(y == 0, exceptional=True): self.raise_exc('ZeroDivisionError')
                # python floor semantics; z3 div/mod are euclidean: equal for y>0
                q = z3.If(y > 0, x / y, -((-x) / (-y)) if False else z3.If(x % y == 0, x / y, z3.If(y > 0, x / y, (x / y) - 0)))
                if opname == 'FloorDiv':
                    return vint(z3.If(y > 0, x / y, (-x) / (-y)))
                return vint(z3.If(y > 0, x % y, -((-x) % (-y))))
            if opname == 'Pow':
                if z3.is_int_value(y) and 0 <= y.as_long() <= 64:
                    r = z3.IntVal(1)
                    for _ in range(y.as_long()): r = r * x
                    return vint(z3.simplify(r))
                raise Unsupported('symbolic exponent')
            if opname == 'Div':
                if self.branch(y == 0, exceptional=True): self.raise_exc('ZeroDivisionError')
                return V(TFloat, z3.ToReal(x) / z3.ToReal(y))
            if opname in ('LShift', 'RShift', 'BitOr', 'BitAnd', 'BitXor'):
                xs, ys = z3.simplify(x), z3.simplify(y)
                if z3.is_int_value(xs) and z3.is_int_value(ys):
                    import operator as _op
                    f_ = {'LShift': _op.lshift, 'RShift': _op.rshift, 'BitOr': _op.or_, 'BitAnd': _op.and_, 'BitXor': _op.xor}[opname]
                    return vint(z3.IntVal(f_(xs.as_long(), ys.as_long())))
                if opname == 'LShift' and z3.is_int_value(ys) and 0 <= ys.as_long() <= 64: return vint(x * (2 ** ys.as_long()))
            raise Unsupported('int op %s' % opname)
        if a.ty is TFlags or b.ty is TFlags:
            x = a.t if a.ty is TFlags else z3.Int2BV(coerce(a, TInt).t, 64); y = b.t if b.ty is TFlags else z3.Int2BV(coerce(b, TInt).t, 64)
            if opname == 'BitOr': return V(TFlags, x | y)
            if opname == 'BitAnd': return V(TFlags, x & y)
            if opname == 'BitXor': return V(TFlags, x ^ y)
            raise Unsupported('flag op %s' % opname)
        if a.ty is TBool and b.ty is TBool:
            if opname == 'BitOr': return vbool(z3.Or(a.t, b.t))
            if opname == 'BitAnd': return vbool(z3.And(a.t, b.t))
            if opname == 'BitXor': return vbool(z3.Xor(a.t, b.t))
        if TFloat in (a.ty, b.ty) and {a.ty, b.ty} <= {TFloat, TInt}:
            x = a.t if a.ty is TFloat else z3.ToReal(a.t); y = b.t if b.ty is TFloat else z3.ToReal(b.t)
            if opname == 'Add': return V(TFloat, x + y)
            if opname == 'Sub': return V(TFloat, x - y)
            if opname == 'Mult': return V(TFloat, x * y)
            if opname == 'Div':
                if self.branch(y == 0, exceptional=True): self.raise_exc('ZeroDivisionError')
                return V(TFloat, x / y)
            raise Unsupported('float op %s' % opname)
        if a.ty is TStr and b.ty is TStr and opname == 'Add': return V(TStr, z3.Concat(a.t, b.t))
        if a.ty is TBytes and b.ty is TBytes and opname == 'Add': return V(TBytes, z3.Concat(a.t, b.t))
        if a.ty is TStr and opname == 'Mod':
            self.vf.note_assumption('%-formatting treated as an arbitrary string')
            return V(TStr, fresh('fmt', z3.StringSort()))
        if opname == 'Add' and isinstance(a.ty, (TSeq, TTuple)) and isinstance(b.ty, (TSeq, TTuple)):
            return self.seq_concat(a, b)
        if isinstance(a.ty, TSet) and isinstance(b.ty, TSet):
            return self.set_op(opname, a, b)
        raise Unsupported('binop %s on %r, %r' % (opname, a.ty, b.ty))

    def seq_concat(self, a, b):
        if isinstance(a.ty, TTuple) and isinstance(b.ty, TTuple):
            return V(TTuple(a.ty.items + b.ty.items), a.t + b.t)
        ty = join_ty(a.ty, b.ty)
        if isinstance(ty, TTuple): ty = TSeq(T._join_all(ty.items))
        a = coerce(a, ty); b = coerce(b, ty)
        i = fresh('ci', z3.IntSort())
        arr = z3.Lambda([i], z3.If(i < a.t[0], a.t[1][i], b.t[1][i - a.t[0]]))
        return V(ty, (a.t[0] + b.t[0], arr))

    def set_op(self, opname, a, b):
        ety = join_ty(a.ty.elem, b.ty.elem)
        if opname == 'BitOr': mem = z3.SetUnion(a.t[0], b.t[0])
        elif opname == 'BitAnd': mem = z3.SetIntersect(a.t[0], b.t[0])
        elif opname == 'Sub': mem = z3.SetDifference(a.t[0], b.t[0])
        else: raise Unsupported('set op %s' % opname)
        card = T.card_fn(mem)
        for f in set_facts(mem, card, TSet(ety)): self.assume(f)
        if opname == 'BitOr': self.assume(z3.And(card >= a.t[1], card >= b.t[1], card <= a.t[1] + b.t[1]))
        elif opname == 'Sub': self.assume(z3.And(card <= a.t[1], card >= a.t[1] - b.t[1]))
        else: self.assume(z3.And(card <= a.t[1], card <= b.t[1]))
        return V(TSet(ety), (mem, card))

    # ---------------- attribute / subscript
    def e_Attribute(self, n):
        obj = self.eval(n.value)
        return self.getattr_obj(obj, n.attr, n)

    def getattr_obj(self, obj, attr, node=None):
        if isinstance(obj, KwDict):
            if attr == 'pop':
                def _pop(ex, recv, args, kwargs, node_):
                    k = ex.const_str(args[0])
                    if k in recv.items: return recv.items.pop(k)
                    if len(args) > 1: return args[1]
                    ex.raise_exc('KeyError')
                return PyMethod(obj, _pop)
            if attr == 'get':
                def _get(ex, recv, args, kwargs, node_):
                    k = ex.const_str(args[0])
                    return recv.items[k] if k in recv.items else (args[1] if len(args) > 1 else NONE)
                return PyMethod(obj, _get)
            raise Unsupported('keyword bag attribute %s' % attr)
        if isinstance(obj, ModuleRef):
            if obj.info is None:
                # external module (stdlib / third party)
                return BuiltinRef(obj.dotted + '.' + attr)
            try:
                return self.lookup_module(obj.info.relpath, attr)
            except Unsupported:
                sub = repo.module_by_dotted(obj.dotted + '.' + attr)
                if sub: return ModuleRef(obj.dotted + '.' + attr, sub)
                raise
        if isinstance(obj, ClassRef):
            for fn_, (frel, fcls, fmem) in self.w.flag_src.items():
                if fcls == obj.name and attr in fmem: return V(TFlags, z3.BitVecVal(fmem[attr], 64))
            ty = self.type_for_class(obj.rel, obj.name)
            if attr == '_fields' and isinstance(ty, TRec):
                return V(TTuple([TStr] * len(ty.fields)), [vstr(f_) for f_, _ in ty.fields])
            if isinstance(ty, TEnum) and attr in ty.members:
                return V(ty, ty.const(attr))
            m = self.find_method(obj.rel, obj.node, attr)
            if m:
                rel, cn, fn = m
                decos = [ast.unparse(d) for d in fn.decorator_list]
                fr = FuncRef(rel, cn.name + '.' + attr, fn, cls=cn)
                if 'classmethod' in decos: return BoundMethod(obj, fr)
                return fr
            for st in obj.node.body:
                if isinstance(st, ast.Assign) and any(isinstance(t, ast.Name) and t.id == attr for t in st.targets):
                    saved = self.frames; self.frames = self.frames + [dict(rel=obj.rel, func=None, contract=None)]
                    try: return self.eval(st.value)
                    finally: self.frames = saved
            raise Unsupported('class attribute %s.%s' % (obj.name, attr))
        if isinstance(obj, FlagNS):
            return V(TFlags, z3.BitVecVal(self.w.flag_src[obj.name][2][attr], 64))
        if isinstance(obj, BuiltinRef): return BuiltinRef(obj.name + '.' + attr)
        if isinstance(obj, ExcV) or (isinstance(obj, V) and obj.ty is TExc):
            e = obj if isinstance(obj, ExcV) else obj.t
            if attr in e.attrs: return e.attrs[attr]
            if attr == 'args': return V(TTuple([a.ty for a in e.args]), e.args)
            raise Unsupported('exception attribute %s' % attr)
        if isinstance(obj, TypeObj):
            if isinstance(obj.ty, TEnum) and attr in obj.ty.members: return V(obj.ty, obj.ty.const(attr))
            raise Unsupported('type attribute')
        from . import strlib
        if isinstance(obj, strlib.RegexV):
            if attr in ('match', 'fullmatch', 'search', 'sub'): return BoundBuiltin(obj, 're.' + attr)
            raise Unsupported('regex attribute %s' % attr)
        if not isinstance(obj, V): raise Unsupported('attribute %s on %s' % (attr, type(obj).__name__))
        ty = obj.ty
        if ty is T.TMatch:
            if attr in ('group', 'groups', 'start', 'end'): return BoundBuiltin(obj, 'match.' + attr)
            raise Unsupported('match attribute %s' % attr)
        if isinstance(ty, TOpt):
            if self.spec:
                return self.getattr_obj(obj.t[1], attr, node)
            if self.branch(obj.t[0], exceptional=True): self.raise_exc('AttributeError')
            return self.getattr_obj(obj.t[1], attr, node)
        if ty is TNone: self.raise_exc('AttributeError')
        if isinstance(ty, TRec):
            if attr in obj.t: return obj.t[attr]
            if attr == '_replace': return BoundBuiltin(obj, '_replace')
        if isinstance(ty, TEnum):
            if attr in ('value', '_value_'):
                if ty.intvalued or all(isinstance(x, int) for x in ty.values): return vint(ty.value_term(obj.t))
                if all(isinstance(x, str) for x in ty.values): return self.to_str(obj)
                if all(isinstance(x, bytes) for x in ty.values):
                    t_ = zs(ty.values[-1].decode('latin-1'))
                    for k_ in range(len(ty.values) - 2, -1, -1):
                        t_ = z3.If(obj.t == ty.const(ty.members[k_]), zs(ty.values[k_].decode('latin-1')), t_)
                    return V(TBytes, t_)
                raise Unsupported('enum value of a non int/str/bytes enum')
            if attr == 'name':
                r = zs(ty.members[-1])
                for m in ty.members[-2::-1]: r = z3.If(obj.t == ty.const(m), zs(m), r)
                return V(TStr, r)
        if isinstance(ty, TRef):
            fields = self.w.classes.get(ty.cls, {})
            if attr in fields: return self.heap_read(obj, attr, self.w.ty(fields[attr]))
        if isinstance(ty, TRef) and (ty.cls, attr) in self.w.py_methods:
            return PyMethod(obj, self.w.py_methods[(ty.cls, attr)])
        if isinstance(ty, TRef) and (ty.cls + '.' + attr) in self.w.ext_methods:
            return ExtMethod(obj, ty.cls + '.' + attr)
        if isinstance(ty, (TRec, TEnum, TRef)):
            src = self.class_of_type(ty)
            if src:
                m = self.find_method(src[0], src[1], attr)
                if m:
                    rel, cn, fn = m
                    decos = [ast.unparse(d) for d in fn.decorator_list]
                    fr = FuncRef(rel, cn.name + '.' + attr, fn, cls=cn)
                    if 'property' in decos or any(d.endswith('cached_property') for d in decos):
                        return self.call_func(fr, [obj], {}, node)
                    if 'staticmethod' in decos: return fr
                    return BoundMethod(obj, fr, node.value if node is not None else None)
                # class-level attribute (constant) read through an instance
                for st in src[1].body:
                    tgt = st.targets[0] if isinstance(st, ast.Assign) and len(st.targets) == 1 else (st.target if isinstance(st, ast.AnnAssign) and st.value is not None else None)
                    if isinstance(tgt, ast.Name) and tgt.id == attr:
                        key = (src[0], src[1].name, attr)
                        if key not in self.vf.modconst:
                            saved = self.frames, self.st
                            self.frames = [dict(rel=src[0], func=None, contract=None, class_scope=src[1])]; self.st = State()
                            try: self.vf.modconst[key] = self.eval(st.value)
                            finally: self.frames, self.st = saved
                        return self.vf.modconst[key]
            raise Unsupported('attribute %s on %r' % (attr, ty))
        if ty is TStr or ty is TBytes or isinstance(ty, (TSeq, TSet, TMap, TTuple, TOMap)) or ty is TInt:
            return BoundBuiltin(obj, attr, node.value if node is not None else None)
        raise Unsupported('attribute %s on %r' % (attr, ty))

    def co(self, v, ty):
        """coerce with Optional narrowing: Opt[T] -> T is allowed when the value is provably not None on this path
        (otherwise the None case raises TypeError, like using None where an object is required would)"""
        v = self.val(v)
        if isinstance(ty, TRef) and ty.universal and v.ty in (TStr, TInt, TBool):
            r = coerce(v, ty)
            for fct in T.box_facts(v, r.t): self.assume(fct)
            return r
        if isinstance(v.ty, TRef) and v.ty.universal and isinstance(ty, TSeq):
            return coerce(self.materialize(self.iter_of(v)), ty)
        if isinstance(ty, TTuple) and isinstance(v.ty, TTuple) and len(ty.items) == len(v.ty.items) and v.ty != ty:
            return V(ty, [self.co(x, t) for x, t in zip(v.t, ty.items)])      # element-wise (Optional narrowing inside tuples, e.g. dict keys)
        if isinstance(ty, TAny) and v.ty is TStr and z3.is_string_value(z3.simplify(v.t)):
            # a string literal used where an opaque (TAny) value is expected denotes one fixed element of that type
            return V(ty, z3.Const('strlit_%s_%s' % (ty.name, z3.simplify(v.t).as_string().encode().hex()), sort_of(ty)))
        try: return coerce(v, ty)
        except Unsupported:
            if v.ty is TExc and isinstance(ty, TRef) and ty.universal: return V(ty, fresh('excobj', sort_of(ty)))      # an exception object passed on as a value
            if isinstance(v.ty, TOpt) and not isinstance(ty, TOpt):
                if not self.spec and self.branch(v.t[0], exceptional=True): self.raise_exc('TypeError')
                return coerce(v.t[1], ty)
            raise

    def heap_field(self, cls, attr, fty):
        key = '%s.%s' % (cls, attr)
        if key not in self.st.heap:
            self.st.heap[key] = self.vf.heap0(key, fty)
        return self.st.heap[key]

    def heap_read(self, obj, attr, fty):
        arr = self.heap_field(obj.ty.cls, attr, fty)
        v = unpack(z3.Select(arr, obj.t), fty)
        if not isinstance(fty, (TPrim, TEnum, TAny, TRef)):
            for fct in T.type_facts(v): self.assume(fct)
        if isinstance(fty, TRef) and not fty.universal:
            # objects reachable through the heap are allocated (a freshly constructed object is distinct from all of them)
            if self.st.alloc is None: self.st.alloc = self.vf.alloc0()
            self.assume(z3.Select(self.st.alloc, v.t))
        return v

    def heap_write(self, obj, attr, v):
        fields = self.w.classes.get(obj.ty.cls, {})
        if attr not in fields: raise Unsupported('store to undeclared field %s.%s' % (obj.ty.cls, attr))
        fty = self.w.ty(fields[attr])
        arr = self.heap_field(obj.ty.cls, attr, fty)
        self.st.heap['%s.%s' % (obj.ty.cls, attr)] = z3.Store(arr, obj.t, pack(self.co(v, fty)))

    def e_Subscript(self, n):
        obj = self.eval(n.value)
        if isinstance(obj, IterV): obj = self.materialize(obj)
        if isinstance(obj, PyObj): raise Unsupported('subscript on %s' % type(obj).__name__)
        obj = self.val(obj)
        if isinstance(n.slice, ast.Slice): return self.do_slice(obj, n.slice)
        idx = self.val(self.eval(n.slice))
        return self.getitem(obj, idx)

    def getitem(self, obj, idx):
        ty = obj.ty
        if isinstance(ty, TRef) and ty.cls in self.w.dict_classes:
            return self.getitem(self.heap_read(obj, 'm', self.w.ty(self.w.dict_classes[ty.cls])), idx)
        if isinstance(ty, TOpt):
            if not self.spec and self.branch(obj.t[0], exceptional=True): self.raise_exc('TypeError')
            return self.getitem(obj.t[1], idx)
        if isinstance(ty, (TTuple, TRec)):
            items = obj.t if isinstance(ty, TTuple) else [obj.t[f] for f, _ in ty.fields]
            i = z3.simplify(coerce(idx, TInt).t)
            if z3.is_int_value(i):
                k = i.as_long()
                if -len(items) <= k < len(items): return items[k]
                if self.spec: raise Unsupported('tuple index out of range in spec')
                self.raise_exc('IndexError')
            if not items: self.raise_exc('IndexError')
            ety = T._join_all([x.ty for x in items])
            return self.getitem(coerce(V(TTuple([x.ty for x in items]), items), TSeq(ety)), idx)
        if isinstance(ty, TSeq):
            i = coerce(idx, TInt).t; ln = obj.t[0]
            if self.spec:
                return seq_get(obj, z3.If(i < 0, i + ln, i))
            if self.branch(z3.Or(i >= ln, i < -ln), exceptional=True): self.raise_exc('IndexError')
            i2 = z3.simplify(z3.If(i < 0, i + ln, i))
            return seq_get(obj, i2)
        if isinstance(ty, TMap):
            k = pack(self.co(idx, ty.k))
            if not self.spec and self.branch(z3.Not(z3.Select(obj.t[0], k)), exceptional=True): self.raise_exc('KeyError')
            return unpack(z3.Select(obj.t[1], k), ty.v)
        if isinstance(ty, TOMap):
            k = pack(self.co(idx, ty.k))
            if not self.spec and self.branch(z3.Not(T.omap_member(obj, k)), exceptional=True): self.raise_exc('KeyError')
            return unpack(z3.Select(obj.t[3], k), ty.v)
        if isinstance(ty, TFun):
            v = unpack(z3.Select(obj.t, pack(self.co(idx, ty.k))), ty.v)
            for fct in T.type_facts(v): self.assume(fct)
            return v
        if isinstance(ty, TRef) and ty.universal:
            self.vf.note_assumption('an opaque object used as a sequence: its items/length are uninterpreted (TypeError/IndexError not modelled)')
            return V(ty, z3.Function('obj_item', sort_of(ty), z3.IntSort(), sort_of(ty))(obj.t, coerce(idx, TInt).t))
        if ty is TStr:
            i = coerce(idx, TInt).t; ln = z3.Length(obj.t)
            if not self.spec and self.branch(z3.Or(i >= ln, i < -ln), exceptional=True): self.raise_exc('IndexError')
            return V(TStr, z3.SubString(obj.t, z3.If(i < 0, i + ln, i), 1))
        raise Unsupported('subscript on %r' % ty)

    def do_slice(self, obj, sl):
        if sl.step is not None:
            st = self.val(self.eval(sl.step))
            if not (z3.is_int_value(z3.simplify(st.t)) and z3.simplify(st.t).as_long() == -1 and sl.lower is None and sl.upper is None):
                raise Unsupported('slice step')
            return self.reverse_seq(obj)
        ty = obj.ty
        if ty is TStr: ln = z3.Length(obj.t)
        elif isinstance(ty, TSeq): ln = obj.t[0]
        elif isinstance(ty, TTuple):
            lo = self.val(self.eval(sl.lower)) if sl.lower else None; hi = self.val(self.eval(sl.upper)) if sl.upper else None
            def cst(v):
                if v is None: return None
                s = z3.simplify(coerce(v, TInt).t)
                if not z3.is_int_value(s): raise Unsupported('symbolic slice of fixed tuple')
                return s.as_long()
            items = obj.t[cst(lo):cst(hi)]
            return V(TTuple([x.ty for x in items]), items)
        else: raise Unsupported('slice on %r' % ty)
        def norm(nd, dflt):
            if nd is None: return dflt
            v = coerce(self.val(self.eval(nd)), TInt).t
            v = z3.If(v < 0, v + ln, v)
            return z3.If(v < 0, z3.IntVal(0), z3.If(v > ln, ln, v))
        lo = norm(sl.lower, z3.IntVal(0)); hi = norm(sl.upper, ln)
        n = z3.simplify(z3.If(hi > lo, hi - lo, z3.IntVal(0)))
        if ty is TStr: return V(TStr, z3.SubString(obj.t, lo, n))
        i = fresh('si', z3.IntSort())
        return V(ty, (n, z3.Lambda([i], obj.t[1][i + lo])))

    def reverse_seq(self, obj):
        if obj.ty is TStr:
            c = self.const_py(obj)
            if c is not None: return vstr(c[0][::-1])
            return self.vf.str_reverse(self, obj)
        if isinstance(obj.ty, TTuple): return V(TTuple(obj.ty.items[::-1]), obj.t[::-1])
        if isinstance(obj.ty, TSeq):
            i = fresh('ri', z3.IntSort())
            return V(obj.ty, (obj.t[0], z3.Lambda([i], obj.t[1][obj.t[0] - 1 - i])))
        raise Unsupported('reverse on %r' % obj.ty)

    # ---------------- comprehensions
    def e_GeneratorExp(self, n): return self.comprehension(n)
    def e_ListComp(self, n): return self.comprehension(n)
    def e_SetComp(self, n):
        # {elt for x in xs}: the set of the elements of the corresponding list comprehension
        return call_builtin(self, 'set', [self.comprehension(n)], {}, n)

    def comprehension(self, n):
        if len(n.generators) != 1 or n.generators[0].is_async or len(n.generators[0].ifs) > 1:
            raise Unsupported('comprehension with several filters / nesting')
        g = n.generators[0]
        if g.ifs: return self.filtered_comprehension(n, g)
        c = self.frame.get('contract')
        if c is not None and not self.spec and not self.nofork and not self.frame.get('inlined'):
            # comprehensions are numbered statically, in source order within the function (list / generator comprehensions with one generator)
            fn_ = self.frame.get('func')
            if fn_ is not None:
                allc = sorted([x for x in ast.walk(fn_) if isinstance(x, (ast.ListComp, ast.GeneratorExp))], key=lambda x: (x.lineno, x.col_offset))
                k = [i_ for i_, x in enumerate(allc) if x is n]
                k = k[0] if k else -1
            else: k = -1
            lc = c.loops.get('comp#%d' % k)
            if lc is not None:
                return self.comprehension_loop(n, g, lc, '%s/comp%d' % (self.vf.cur.oname, k))
        src_ = self.eval(g.iter)
        if isinstance(src_, V) and isinstance(src_.ty, TTuple) and src_.t:
            # a fixed-arity tuple: evaluated element by element (exact; lets elements be used where a constant is needed)
            saved_ = dict(self.st.env); outs = []
            for x_ in src_.t:
                self.assign(g.target, x_); outs.append(self.val(self.eval(n.elt)))
            for nme in [n_.id for n_ in ast.walk(g.target) if isinstance(n_, ast.Name)]:
                if nme in saved_: self.st.env[nme] = saved_[nme]
                else: self.st.env.pop(nme, None)
            return V(TTuple([o.ty for o in outs]), outs)
        it = self.iter_of(src_)
        saved_env = self.st.env
        ex = self
        def get(i):
            ex.st.env = dict(saved_env)
            try:
                ex.assign(g.target, it.get(i))
                return ex.val(ex.eval(n.elt))
            finally:
                ex.st.env = saved_env
        return IterV(it.ln, get)

    def filtered_comprehension(self, n, g):
        """[elt for x in src if cond(x)]  (pure elt / cond):  the subsequence of the source elements satisfying cond, in order.
        Encoded with a strictly increasing index function pick: 0..len(r)-1 -> positions of src;  every picked element satisfies cond,
        every element satisfying cond is picked."""
        it = self.iter_of(self.eval(g.iter)); sv = self.materialize(it)
        saved_env = self.st.env
        def at(j, expr):
            self.st.env = dict(saved_env)
            try:
                self.assign(g.target, seq_get(sv, j)); return self.val(self.eval(expr))
            finally: self.st.env = saved_env
        j = z3.Int('fj!q'); k = z3.Int('fk!q'); k2 = z3.Int('fk2!q')
        self.nofork += 1; self.binders.append(j)
        try:
            try:
                cond = truth(at(j, g.ifs[0])); elt_j = at(j, n.elt)
            except NeedFork: raise Unsupported('filtered comprehension whose filter / element needs a fork')
        finally: self.nofork -= 1; self.binders.pop()
        ln = fresh('flen', z3.IntSort()); pick = fresh('pick', z3.ArraySort(z3.IntSort(), z3.IntSort()))
        sub = lambda f, v: z3.substitute(f, (j, v))
        self.assume(z3.And(ln >= 0, ln <= sv.t[0]))
        self.assume(z3.ForAll([k], z3.Implies(z3.And(k >= 0, k < ln), z3.And(pick[k] >= 0, pick[k] < sv.t[0], sub(cond, pick[k])))))
        self.assume(z3.ForAll([k, k2], z3.Implies(z3.And(k >= 0, k < k2, k2 < ln), pick[k] < pick[k2])))
        self.assume(z3.ForAll([j], z3.Implies(z3.And(j >= 0, j < sv.t[0], cond), z3.Exists([k], z3.And(k >= 0, k < ln, pick[k] == j)))))
        ety = elt_j.ty
        arr = z3.Lambda([k], z3.substitute(pack(elt_j), (j, pick[k])))
        return V(TSeq(ety), (ln, arr))

    def comprehension_loop(self, n, g, lc, base):
        """[elt for target in iter] whose element expression has effects (calls with `modifies`): executed as the loop
        acc = []; for target in iter: acc.append(elt)   cut by the sidecar invariant (names: acc, index i, seq its)"""
        it = self.iter_of(self.eval(g.iter))
        sv = self.materialize(it)
        accn, idxn, seqn = lc.get('acc', 'acc'), lc.get('index', 'i'), lc.get('seq', 'its')
        ety = self.w.ty(lc['elem_type'])
        self.st.env[seqn] = sv; self.st.env[accn] = seq_literal([], ety); self.st.env[idxn] = vint(0)
        for k, inv in enumerate(lc['invariant']):
            self.prove(self.eval_spec(inv), '%s/inv-init#%d' % (base, k), 'inv-init', inv)
        facts = []
        acc = havoc(TSeq(ety), accn, facts); i = fresh(idxn, z3.IntSort()); facts += [i >= 0, i <= sv.t[0]]
        for hf in lc.get('modifies', []):
            cls, fld = hf.split('.'); fty = self.w.ty(self.w.classes[cls][fld]); self.heap_field(cls, fld, fty)
            self.st.heap[hf] = fresh('heap_' + cls + '_' + fld, z3.ArraySort(sort_of(TRef(cls)), sort_of(fty)))
        for f in facts: self.assume(f)
        self.st.env[accn] = acc; self.st.env[idxn] = vint(i)
        for inv in lc['invariant']: self.assume(self.eval_spec(inv))
        if self.branch(i < sv.t[0]):
            self.assign(g.target, seq_get(sv, i))
            x = self.co(self.eval(n.elt), ety)
            acc2 = V(acc.ty, (acc.t[0] + 1, z3.Store(acc.t[1], acc.t[0], pack(x))))
            self.st.env[accn] = acc2; self.st.env[idxn] = vint(i + 1)
            for k, inv in enumerate(lc['invariant']):
                self.prove(self.eval_spec(inv), '%s/inv-step#%d' % (base, k), 'inv-step', inv)
            raise PathEnd()
        return acc

    def iter_of(self, x):
        """anything iterable in order -> IterV"""
        if isinstance(x, IterV): return x
        x = self.val(x)
        if isinstance(x.ty, TOpt):
            if not self.spec and self.branch(x.t[0], exceptional=True): self.raise_exc('TypeError')
            x = x.t[1]
        ty = x.ty
        if isinstance(ty, TSeq): return IterV(x.t[0], lambda i: seq_get(x, i), ty.elem)
        if isinstance(ty, TRef) and ty.universal:
            self.vf.note_assumption('an opaque object used as a sequence: its items/length are uninterpreted (TypeError/IndexError not modelled)')
            ln = z3.Function('obj_len', sort_of(ty), z3.IntSort())(x.t); self.assume(ln >= 0)
            return IterV(ln, lambda i: V(ty, z3.Function('obj_item', sort_of(ty), z3.IntSort(), sort_of(ty))(x.t, i)), ty)
        if isinstance(ty, (TTuple, TRec)):
            items = x.t if isinstance(ty, TTuple) else [x.t[f] for f, _ in ty.fields]
            if not items: return IterV(z3.IntVal(0), lambda i: NONE, None)
            ety = T._join_all([e.ty for e in items])
            s = coerce(V(TTuple([e.ty for e in items]), items), TSeq(ety))
            return IterV(s.t[0], lambda i: seq_get(s, i), ety)
        if ty is TStr: return IterV(z3.Length(x.t), lambda i: V(TStr, z3.SubString(x.t, i, 1)), TStr)
        if isinstance(ty, TOMap): return IterV(x.t[0], lambda i: unpack(z3.Select(x.t[1], i), ty.k), ty.k)
        raise Unsupported('iteration over %r' % ty)

    # ---------------- calls
    def e_Call(self, n):
        if self.spec and isinstance(n.func, ast.Name) and n.func.id == 'old':
            if self.old is None: raise Unsupported('old() without a pre-state')
            saved = self.st
            st = State(); st.env = dict(saved.env); st.env.update(self.old.env); st.heap = dict(self.old.heap); st.alloc = self.old.alloc
            # quantifier-bound / lambda variables keep their current binding
            for k, v in saved.env.items():
                if k not in self.old.env: st.env[k] = v
            self.st = st
            try: return self.eval(n.args[0])
            finally:
                for k, v in st.heap.items():
                    if k not in self.old.heap: self.old.heap[k] = v
                self.st = saved
        if not self.spec and isinstance(n.func, ast.Attribute) and n.func.attr == '__new__' and len(n.args) == 1 and not n.keywords:
            # Cls.__new__(Cls): a fresh object of a class declared in the sidecar, no __init__ run (fields hold whatever is assigned next)
            cobj = self.eval(n.func.value)
            if isinstance(cobj, ClassRef):
                ty = self.type_for_class(cobj.rel, cobj.name)
                if isinstance(ty, TRef): return self.alloc(ty)
        if not self.spec and (self.w.ext_funcs or self.frame.get('ext_funcs')):
            txt = ast.unparse(n.func)
            c_ = self.frame.get('contract')
            if c_ is not None and txt in c_.hints.get('use_contract', ()):      # this caller is verified against the callee's VERIFIED contract, not the assumed one of the same name
                f = self.eval(n.func)
            elif txt in (self.frame.get('ext_funcs') or {}):
                f = ExtMethod(None, txt)
            elif txt in self.w.ext_funcs:
                f = ExtMethod(None, txt)
            else: f = self.eval(n.func)
        else:
            f = self.eval(n.func)
        args = []
        for a in n.args:
            if isinstance(a, ast.Starred):
                args.append(('*', self.eval(a.value)))
            else: args.append(self.eval(a))
        kwargs = {}
        for k in n.keywords:
            if k.arg is None:
                kv = self.eval(k.value)
                if isinstance(kv, KwDict): kwargs.update(kv.items)      # f(**d) with a dict of known keys
                else: kwargs['**'] = kv
            else: kwargs[k.arg] = self.eval(k.value)
        return self.call(f, args, kwargs, n)

    def call(self, f, args, kwargs, node):
        if isinstance(f, BuiltinRef): return call_builtin(self, f.name, args, kwargs, node)
        if isinstance(f, SpecFn): return call_spec(self, f.name, args, kwargs, node)
        if isinstance(f, PyMethod): return f.fn(self, f.recv, args, kwargs, node)
        if isinstance(f, ExtMethod): return self.ext_call(f, args, kwargs, node)
        if any(isinstance(a, tuple) for a in args):
            if isinstance(f, (FuncRef, BoundMethod)): return self.star_call(f, args, kwargs, node)
            raise Unsupported('star-args call to %s' % type(f).__name__)
        if isinstance(f, BoundBuiltin): return call_method_builtin(self, f, args, kwargs, node)
        if self.w.coroutine_objects and isinstance(f, (FuncRef, BoundMethod)) and node is not None and id(node) not in self.awaited:
            fn_ = f.node if isinstance(f, FuncRef) else f.func.node
            if isinstance(fn_, ast.AsyncFunctionDef):
                # calling a coroutine function without awaiting it runs nothing: it only creates a coroutine object
                return CoroV(f, [self.val(a) if isinstance(a, V) else a for a in args], dict(kwargs))
        if isinstance(f, FuncRef): return self.call_func(f, args, kwargs, node)
        if isinstance(f, BoundMethod):
            return self.call_func(f.func, [f.recv] + args, kwargs, node, recv_node=f.recv_node)
        if isinstance(f, ExcClass):
            attrs = {}
            return ExcV(f.name, [self.val(a) for a in args], {k: v for k, v in kwargs.items()})
        if isinstance(f, ClassRef): return self.construct(f, args, kwargs, node)
        if isinstance(f, LambdaV): return self.call_lambda(f, args)
        if isinstance(f, TypeObj): return self.construct_type(f.ty, args, kwargs)
        if isinstance(f, V) and isinstance(f.ty, TOpt):
            if self.branch(f.t[0], exceptional=True): self.raise_exc('TypeError')
            f = f.t[1]
        if isinstance(f, V) and isinstance(f.ty, TRec) and f.ty.name in self.w.callable_recs:
            return self.w.callable_recs[f.ty.name](self, f, args, kwargs, node)
        if isinstance(f, V) and isinstance(f.ty, TRef) and (f.ty.cls, '__call__') in self.w.py_methods:      # a callable object given a model in the sidecar (listed as trusted there)
            return self.w.py_methods[(f.ty.cls, '__call__')](self, f, args, kwargs, node)
        if isinstance(f, V) and isinstance(f.ty, TRef) and (f.ty.cls + '.__call__') in self.w.ext_methods:
            return self.ext_call(ExtMethod(f, f.ty.cls + '.__call__'), args, kwargs, node)
        raise Unsupported('call of %s' % (f.ty if isinstance(f, V) else type(f).__name__))

    def call_lambda(self, f, args):
        saved = self.st.env
        self.st.env = dict(f.env)
        self.st.env.update(saved)   # later bindings visible (closures by reference)
        try:
            for p, a in zip(f.node.args.args, args): self.st.env[p.arg] = a
            return self.eval(f.node.body)
        finally: self.st.env = saved

    def construct_type(self, ty, args, kwargs):
        if isinstance(ty, TRec):
            vals = {}
            for (fname, fty), a in zip(ty.fields, args): vals[fname] = self.co(a, fty)
            for k, a in kwargs.items(): vals[k] = self.co(a, ty.fty(k))
            if len(vals) != len(ty.fields):
                src = self.w.rec_src.get(ty.name)
                todo = [src] if src else []; seen_ = set()
                while todo:       # field defaults of the class and (dataclass inheritance) of its bases
                    rel_, cls_ = todo.pop(0)
                    if (rel_, cls_) in seen_: continue
                    seen_.add((rel_, cls_))
                    node, _ = repo.find_def(rel_, cls_)
                    for st in node.body:
                        if isinstance(st, ast.AnnAssign) and isinstance(st.target, ast.Name) and st.value is not None and st.target.id not in vals and st.target.id in dict(ty.fields):
                            saved = self.st.env; self.st.env = {}
                            self.frames.append(dict(rel=rel_, func=None, contract=None))
                            try: vals[st.target.id] = self.co(self.eval(st.value), ty.fty(st.target.id))
                            finally: self.frames.pop(); self.st.env = saved
                    for b_ in node.bases:
                        saved = self.st.env; self.st.env = {}
                        self.frames.append(dict(rel=rel_, func=None, contract=None))
                        try:
                            try: bobj = self.eval(b_)
                            except Unsupported: bobj = None
                        finally: self.frames.pop(); self.st.env = saved
                        if isinstance(bobj, ClassRef): todo.append((bobj.rel, bobj.name))
                if len(vals) != len(ty.fields): raise Unsupported('record constructor: missing fields %s' % [f for f, _ in ty.fields if f not in vals])
            return V(ty, vals)
        raise Unsupported('constructing %r' % ty)

    def construct(self, cref, args, kwargs, node):
        if any(fcls == cref.name for (frel, fcls, fmem) in self.w.flag_src.values()):
            v = self.val(args[0])
            if v.ty is TFlags: return v
            return V(TFlags, z3.simplify(z3.Int2BV(coerce(v, TInt).t, 64)))
        ty = self.type_for_class(cref.rel, cref.name)
        if isinstance(ty, TEnum):
            v = self.val(args[0])
            if isinstance(v.ty, TEnum) and v.ty == ty: return v
            return self.enum_from_value(ty, v)
        if isinstance(ty, TRec): return self.construct_type(ty, args, kwargs)
        if isinstance(ty, TRef):
            r = self.alloc(ty)
            m = self.find_method(cref.rel, cref.node, '__init__')
            if m:
                fr = FuncRef(m[0], m[1].name + '.__init__', m[2], cls=m[1])
                self.call_func(fr, [r] + args, kwargs, node)
            elif any('dataclass' in ast.unparse(d) for d in cref.node.decorator_list):
                # generated __init__ of a dataclass: fields in declaration order, defaults from the class body
                flds = [st for st in cref.node.body if isinstance(st, ast.AnnAssign) and isinstance(st.target, ast.Name)]
                pos = list(args)
                for st in flds:
                    nm = st.target.id
                    if nm not in self.w.classes[ty.cls]: continue
                    fty = self.w.ty(self.w.classes[ty.cls][nm])
                    if pos: v_ = pos.pop(0)
                    elif nm in kwargs: v_ = kwargs[nm]
                    elif st.value is not None and isinstance(st.value, ast.Call) and ast.unparse(st.value.func) in ('dataclasses.field', 'field'):
                        kws = {k.arg: k.value for k in st.value.keywords}
                        if 'default' in kws: v_ = self.eval(kws['default'])
                        elif 'default_factory' in kws and isinstance(kws['default_factory'], ast.Name) and kws['default_factory'].id in ('list', 'dict', 'set', 'tuple', 'frozenset'):
                            v_ = V(TTuple([]), [])
                        elif 'default_factory' in kws:
                            try: v_ = self.call(self.eval(kws['default_factory']), [], {}, None)
                            except Unsupported:
                                if isinstance(fty, TRef) and fty.universal: v_ = V(fty, fresh('pyobj', sort_of(fty)))      # a factory outside the subset, stored where any object is accepted: opaque
                                else: raise
                        else: raise Unsupported('dataclass %s: field %s without default' % (cref.name, nm))
                    elif st.value is not None:
                        try: v_ = self.eval(st.value)
                        except Unsupported:
                            if isinstance(fty, TRef) and fty.universal: v_ = V(fty, fresh('pyobj', sort_of(fty)))      # a default outside the subset, stored where any object is accepted: opaque
                            else: raise
                    else: raise Unsupported('dataclass %s: no value for field %s' % (cref.name, nm))
                    try: v2_ = self.co(v_, fty)
                    except Unsupported:
                        if isinstance(fty, TRef) and fty.universal and isinstance(v_, V): v2_ = V(fty, fresh('pyobj', sort_of(fty)))     # a structured value stored where any object is accepted: opaque
                        else: raise
                    self.heap_write(r, nm, v2_)
            return r
        raise Unsupported('constructor of undeclared class %s' % cref.name)

    def havoc_alloc(self, facts):
        """other code may construct objects meanwhile: the set of existing objects only grows"""
        if self.st.alloc is None: self.st.alloc = self.vf.alloc0()
        na = fresh('alloc', self.st.alloc.sort()); x_ = z3.Const('ax!', self.st.alloc.sort().domain())
        facts.append(z3.ForAll([x_], z3.Implies(z3.Select(self.st.alloc, x_), z3.Select(na, x_))))
        self.st.alloc = na

    def alloc(self, ty):
        r = fresh('new_' + ty.cls, sort_of(ty))
        if self.st.alloc is None: self.st.alloc = self.vf.alloc0()
        self.assume(z3.Not(z3.Select(self.st.alloc, r)))
        self.st.alloc = z3.Store(self.st.alloc, r, True)
        return V(ty, r)

    def enum_from_value(self, ty, v):
        if ty.intvalued or all(isinstance(x, int) for x in ty.values):
            t = coerce(v, TInt).t
            ok = z3.Or(*[t == val for val in ty.values])
            if not self.spec and self.branch(z3.Not(ok), exceptional=True): self.raise_exc('ValueError')
            r = ty.const(ty.members[-1])
            for m, val in list(zip(ty.members, ty.values))[-2::-1]:
                r = z3.If(t == val, ty.const(m), r)
            return V(ty, r)
        if v.ty is TStr:
            ok = z3.Or(*[v.t == zs(val) for val in ty.values])
            if not self.spec and self.branch(z3.Not(ok), exceptional=True): self.raise_exc('ValueError')
            r = ty.const(ty.members[-1])
            for m, val in list(zip(ty.members, ty.values))[-2::-1]:
                r = z3.If(v.t == zs(val), ty.const(m), r)
            return V(ty, r)
        raise Unsupported('enum construction from %r' % v.ty)

    def raise_exc(self, cls, *args, **attrs):
        if self.spec: raise Unsupported('exception %s inside a specification expression' % cls)
        raise RaiseSig(ExcV(cls, list(args), attrs))

    def bind_args(self, fnode, args, kwargs, is_method_self=None):
        """bind call arguments to parameter names per the real signature; returns dict name->value|None(default node)"""
        a = fnode.args
        names = [p.arg for p in a.posonlyargs + a.args]
        bound = {}
        if len(args) > len(names) and not a.vararg: raise Unsupported('too many positional args for %s' % fnode.name)
        for nme, v in zip(names, args): bound[nme] = v
        kwargs = dict(kwargs)
        if a.vararg:
            if '__vararg__' in kwargs: bound[a.vararg.arg] = kwargs.pop('__vararg__')
            else:
                extra = args[len(names):]
                bound[a.vararg.arg] = V(TTuple([self.val(x).ty for x in extra]), [self.val(x) for x in extra])
        starkw = kwargs.pop('**', None)
        if a.kwarg: bound[a.kwarg.arg] = starkw if starkw is not None else V(TTuple([]), [])
        defaults = dict(zip(names[len(names) - len(a.defaults):], a.defaults))
        for p, d in zip(a.kwonlyargs, a.kw_defaults):
            names.append(p.arg)
            if d is not None: defaults[p.arg] = d
        for k, v in kwargs.items():
            if k not in names:
                if a.kwarg: continue
                raise Unsupported('unexpected keyword %s for %s' % (k, fnode.name))
            bound[k] = v
        if a.vararg: names.append(a.vararg.arg)
        if a.kwarg: names.append(a.kwarg.arg)
        for nme in names:
            if nme not in bound:
                if nme in defaults: bound[nme] = ('default', defaults[nme])
                else: raise Unsupported('missing argument %s for %s' % (nme, fnode.name))
        return bound, names

    def call_func(self, fr, args, kwargs, node, recv_node=None):
        me = None
        for f_ in reversed(self.frames):
            if f_.get('contract') is not None: me = f_['contract']; break
        view = me.view if me is not None else None
        if me is not None and fr.qual in me.hints.get('callee_views', {}):
            view = me.hints['callee_views'][fr.qual]        # the sidecar names the view of the callee a call (e.g. a recursive one) is checked against; None = the default view
        c = (self.w.contracts.get(fr.key + '#' + view) if view else None) or self.w.contracts.get(fr.key)
        if c is None:
            # methods are keyed by Class.method; nested functions by outer.<locals>.inner
            cands = [cc for cc in self.w.contracts.values()
                     if cc.rel == fr.rel and cc.qual.split('.')[-1] == fr.node.name and repo.find_def(cc.rel, cc.qual)[0] is fr.node]
            same = [cc for cc in cands if cc.view == view]; dflt = [cc for cc in cands if cc.view is None]
            c = (same or dflt or cands or [None])[0]
        if c is None or c.inline or self.spec:
            if c is None and not self.spec and not self.vf.auto_inline(fr):
                raise Unsupported('call to %s without a contract' % fr.key)
            return self.inline_call(fr, args, kwargs, c)
        return self.contract_call(fr, c, args, kwargs, node, recv_node)

    def inline_call(self, fr, args, kwargs, c):
        self.vf.note_inlined(fr.key)
        bound, names = self.bind_args(fr.node, args, kwargs)
        saved_env = self.st.env
        frame = dict(rel=fr.rel, func=fr.node, contract=c, inlined=True)
        self.frames.append(frame)
        self.st.env = {}
        if len(self.frames) > 40: raise Unsupported('inline depth')
        try:
            for k, v in bound.items():
                if isinstance(v, tuple) and v[0] == 'default': v = self.eval(v[1])
                self.st.env[k] = v
            try:
                self.exec_block(fr.node.body)
                return NONE
            except ReturnSig as r:
                return r.v
        finally:
            self.frames.pop()
            self.st.env = saved_env

    def spec_env(self, contract, bound, extra=None):
        env = {}
        env.update(bound)
        if extra: env.update(extra)
        return env

    def eval_spec(self, expr, env=None, heap=None, old=None, rel=None, extra=None):
        """evaluate a specification expression string -> z3 Bool"""
        tree = self.vf.parse_spec(expr)
        saved = self.st, self.old, self.frames
        st = State(); st.env = dict(env if env is not None else self.st.env); st.heap = self.st.heap if heap is None else heap
        st.alloc = self.st.alloc
        self.st = st
        if old is not None: self.old = old
        self.frames = self.frames + [dict(rel=rel or self.frame['rel'], func=None, contract=None, extra=extra or {})]
        self.spec += 1
        try:
            return truth(self.val(self.eval(tree)))
        finally:
            self.spec -= 1
            heap_after = self.st.heap
            self.st, self.old, self.frames = saved
            # heap fields lazily created during spec evaluation are initial-heap reads: keep them
            for k, v in heap_after.items():
                if k not in self.st.heap: self.st.heap[k] = v

    def contract_call(self, fr, c, args, kwargs, node, recv_node=None):
        w = self.w
        bound, names = self.bind_args(fr.node, args, kwargs)
        vals = {}
        for k in names:
            v = bound[k]
            if isinstance(v, tuple) and v[0] == 'default':
                saved = self.st.env; self.st.env = {}
                self.frames.append(dict(rel=fr.rel, func=None, contract=None))
                try: v = self.eval(v[1])
                finally: self.frames.pop(); self.st.env = saved
            if k in c.params and isinstance(v, (V, IterV)):
                v = self.co(v, w.ty(c.params[k]))
            vals[k] = v
        ordinal = self.call_counts.get(fr.key, 0); self.call_counts[fr.key] = ordinal + 1
        site = '%s@%s#%d' % (fr.qual, self.frame_name(), ordinal)
        # ghost arguments chosen by the caller's contract
        me = self.frame.get('contract')
        ghosts = {}
        if c.ghost:
            spec = (me.call_ghost if me else {}).get((fr.qual, ordinal)) or (me.call_ghost if me else {}).get(fr.qual) or {}
            for g, gty in c.ghost.items():
                if g in c.hints.get('ghost_out', ()):
                    # output witness: (re)bound after the call; its value before the call (if the contract's requires mention it: an
                    # in/out ghost such as a monotone flag) is the caller's ghost variable of the same name, when there is one
                    if g in self.st.env and isinstance(self.st.env[g], V): ghosts[g] = coerce(self.val(self.st.env[g]), w.ty(gty))
                    else: ghosts[g] = default_value(w.ty(gty))
                    continue
                if g in spec:
                    tree = self.vf.parse_spec(spec[g])
                    self.spec += 1
                    try: ghosts[g] = coerce(self.val(self.eval(tree)), w.ty(gty))
                    finally: self.spec -= 1
                elif g in self.st.env: ghosts[g] = coerce(self.val(self.st.env[g]), w.ty(gty))
                else: raise Unsupported('no ghost argument %s for call %s' % (g, site))
        env = dict(vals); env.update(ghosts)
        for s in c.state:
            if s not in self.st.env: raise Unsupported('state variable %s of %s not in scope at call' % (s, fr.key))
            env[s] = self.st.env[s]
        # requires
        for i, r in enumerate(list(c.requires) + list(c.caller_requires)):
            f = self.eval_spec(r, env=env, rel=fr.rel)
            self.prove(f, '%s/pre@%s#%d' % (self.vf.cur.oname, site, i), 'pre@callsite', r, 'auxiliary' if i < len(c.requires) else 'property')
        pre = self.st.copy(); pre.env = dict(env)
        # havoc modifies
        facts = []
        for mname in c.modifies:
            if mname == '$alloc': self.havoc_alloc(facts)
            elif mname in c.state:
                nv = havoc(w.ty(c.state[mname]), mname, facts)
                self.st.env[mname] = nv; env[mname] = nv
            elif '.' in mname:
                cls, fld = mname.split('.')
                fty = w.ty(w.classes[cls][fld])
                self.heap_field(cls, fld, fty)
                self.st.heap[mname] = fresh('heap_' + cls + '_' + fld, z3.ArraySort(sort_of(TRef(cls)), sort_of(fty)))
            elif mname in vals:
                # mutable argument modified in place: write back to caller l-value
                nv = havoc(self.val(vals[mname]).ty, mname, facts); env[mname] = nv
                self.write_back(fr, mname, names, node, recv_node, nv)
            else: raise Unsupported('modifies entry %s' % mname)
        for g in c.hints.get('ghost_out', ()):
            # an existential witness produced by the callee: unknown to the caller, (re)bound in its ghost variable of the same name
            nv = havoc(w.ty(c.ghost[g]), g, facts); env[g] = nv; self.st.env[g] = nv
        for f in facts: self.assume(f)
        # outcome
        outcomes = ['normal'] + list(c.raises.keys())
        k = 0
        if len(outcomes) > 1:
            k = self.choose(len(outcomes))
        rty = w.ty(c.returns)
        if k == 0:
            if c.pure:
                res = self.pure_result(fr, c, [vals[nm] for nm in names], rty)
            else:
                facts = []; res = havoc(rty, 'ret_' + fr.node.name, facts)
                for f in facts: self.assume(f)
            env2 = dict(env); env2['result'] = res
            for e in c.ensures:
                try: self.assume(self.eval_spec(e, env=env2, old=pre, rel=fr.rel))
                except Unsupported as ex_:
                    # a postcondition about the callee's own locals (proved there) says nothing the caller can use: not assumed here (fewer hypotheses: sound)
                    if 'unresolved name' not in str(ex_): raise
            return res
        ecls = outcomes[k]; spec = c.raises[ecls]
        exc = ExcV(ecls)
        for an, aty in (spec.get('attrs') or {}).items():
            facts = []; exc.attrs[an] = havoc(w.ty(aty), 'exc_' + an, facts)
            for f in facts: self.assume(f)
        env2 = dict(env); env2['exc'] = V(TExc, exc)
        if spec.get('only_if'):
            self.assume(self.eval_spec(spec['only_if'], env=pre.env, heap=pre.heap, old=pre, rel=fr.rel))
        for e in spec.get('ensures', []):
            self.assume(self.eval_spec(e, env=env2, old=pre, rel=fr.rel))
        raise RaiseSig(exc)

    def ext_call(self, f, args, kwargs, node):
        """call of a method that lives outside the verified code base (Cython, other process, callback):
        only its declared contract is known.  Its `requires` are proof obligations at this call site."""
        c = (self.frame.get('ext_funcs') or {}).get(f.key) or self.w.ext_methods.get(f.key) or self.w.ext_funcs[f.key]
        self.vf.note_assumption('assumed contract of code outside reach: %s' % f.key)
        pos = [a for a in args if not isinstance(a, tuple)]
        if c.get('overloads'):
            # several assumed contracts for one name, told apart by the kinds of the arguments (a function that dispatches on isinstance of an argument):
            # the first alternative whose parameter types accept the actual arguments applies
            chosen = None
            for alt in c['overloads']:
                try:
                    for nme, a in list(zip(list(alt['params']), pos)) + [(k_, a_) for k_, a_ in kwargs.items() if k_ in alt['params']]:
                        if isinstance(a, V):
                            pty_ = self.w.ty(alt['params'][nme])
                            coerce(a.t[1] if isinstance(a.ty, TOpt) and not isinstance(pty_, TOpt) else a, pty_)
                    chosen = alt; break
                except Unsupported: continue
            if chosen is None: raise Unsupported('ext call %s: no overload accepts the arguments' % f.key)
            c = chosen
        pnames = list(c['params'])
        vals = {}
        def co_arg(a, ty):
            if isinstance(a, (CoroV, BoundMethod, FuncRef, LambdaV, ClassRef, BuiltinRef, ExcClass)) and isinstance(ty, TRef) and ty.universal:
                return V(ty, fresh('pyobj', sort_of(ty)))      # a coroutine / callable handed to outside code: an opaque object
            try: return self.co(a, ty)
            except Unsupported:
                if isinstance(ty, TRef) and ty.universal and isinstance(a, V):
                    return V(ty, fresh('pyobj', sort_of(ty)))      # a structured value handed to outside code where any object is accepted
                raise
        for nme, a in zip(pnames, pos): vals[nme] = co_arg(a, self.w.ty(c['params'][nme]))
        for k, a in kwargs.items():
            if k in c['params']: vals[k] = co_arg(a, self.w.ty(c['params'][k]))
        for nme in pnames:
            if nme not in vals:
                if nme in c.get('optional', ()): continue
                raise Unsupported('ext call %s: missing argument %s' % (f.key, nme))
        ordinal = self.call_counts.get(f.key, 0); self.call_counts[f.key] = ordinal + 1
        site = '%s@%s#%d' % (f.key, self.frame_name(), ordinal)
        env = dict(vals)
        for bname, bexpr in (c.get('bind') or {}).items():      # names of the contract bound to expressions of the caller's frame
            env[bname] = self.val(self.eval_spec_val(bexpr))
        if f.recv is not None: env['self'] = f.recv
        me = self.frame.get('contract')
        gspec = (me.call_ghost if me else {}).get(f.key) or {}
        for g, gty in c.get('ghost', {}).items():
            if g in gspec:
                self.spec += 1
                try: env[g] = coerce(self.val(self.eval(self.vf.parse_spec(gspec[g]))), self.w.ty(gty))
                finally: self.spec -= 1
            elif g in self.st.env: env[g] = coerce(self.val(self.st.env[g]), self.w.ty(gty))
            else: raise Unsupported('no ghost argument %s for ext call %s' % (g, site))
        for s_ in c.get('state', []):
            if s_ in self.st.env: env[s_] = self.st.env[s_]
        for i, r in enumerate(c.get('requires', [])):
            fml = self.eval_spec(r, env=env)
            self.prove(fml, '%s/pre@%s#%d' % (self.vf.cur.oname, site, i), 'pre@callsite', r, c.get('tag', 'property'))
        outcomes = ['normal'] + list(c.get('raises', {}))
        k = self.choose(len(outcomes)) if len(outcomes) > 1 else 0
        pre = self.st.copy(); pre.env = dict(env)
        facts = []
        for mname in c.get('modifies', []):
            if mname == '$alloc': self.havoc_alloc(facts); continue
            if mname in self.st.env and isinstance(self.st.env[mname], V):
                self.st.env[mname] = havoc(self.st.env[mname].ty, mname, facts); env[mname] = self.st.env[mname]
            elif '.' in mname:
                cls, fld = mname.split('.'); fty = self.w.ty(self.w.classes[cls][fld]); self.heap_field(cls, fld, fty)
                self.st.heap[mname] = fresh('heap_' + cls + '_' + fld, z3.ArraySort(sort_of(TRef(cls)), sort_of(fty)))
        if k == 0:
            rty = c.get('returns', 'none')
            if c.get('returns_seq'): rty = c['returns_seq'][min(ordinal, len(c['returns_seq']) - 1)]
            if c.get('returns_expr'):
                # the result IS the value of a spec expression over the arguments (an uninterpreted function of them): no fresh value + equality
                saved_env_ = self.st.env; self.st.env = dict(env)
                try: res = self.co(self.val(self.eval_spec_val(c['returns_expr'])), self.w.ty(rty))
                finally: self.st.env = saved_env_
            else:
                res = havoc(self.w.ty(rty), 'ret_' + f.key.replace('.', '_'), facts)
            for fct in facts: self.assume(fct)
            env2 = dict(env); env2['result'] = res
            ens = c.get('ensures', [])
            if c.get('ensures_seq'): ens = list(ens) + list(c['ensures_seq'][min(ordinal, len(c['ensures_seq']) - 1)])     # per call ordinal
            for e in ens: self.assume(self.eval_spec(e, env=env2, old=pre))
            return res
        for fct in facts: self.assume(fct)
        ecls = outcomes[k]
        env2 = dict(env); exc = ExcV(ecls); env2['exc'] = V(TExc, exc)
        for e in c['raises'][ecls].get('ensures', []): self.assume(self.eval_spec(e, env=env2, old=pre))
        raise RaiseSig(exc)

    def star_call(self, f, args, kwargs, node):
        """f(*seq, more..., kw=..): positional arguments given (partly) by symbolic sequences"""
        fr = f.func if isinstance(f, BoundMethod) else f
        pre = [f.recv] if isinstance(f, BoundMethod) else []
        a = fr.node.args
        fixed = [p.arg for p in a.posonlyargs + a.args][len(pre):]
        # explicit leading arguments bind the fixed parameters directly (they may be of unrelated types, e.g. None)
        lead = []
        while args and not isinstance(args[0], tuple) and len(lead) < len(fixed): lead.append(args[0]); args = args[1:]
        if len(lead) == len(fixed) and a.vararg:
            seq = None; items = []
            for x in args:
                if isinstance(x, tuple):
                    sv = self.iter_of(x[1]); sv = self.materialize(sv) if isinstance(sv, IterV) else sv
                    if items:
                        lit = seq_literal(items, T._join_all([i.ty for i in items] + [sv.ty.elem])); items = []
                        seq = lit if seq is None else self.seq_concat(seq, lit)
                    seq = sv if seq is None else self.seq_concat(seq, sv)
                else: items.append(self.val(x))
            if items:
                lit = seq_literal(items, T._join_all([i.ty for i in items] + ([seq.ty.elem] if seq is not None else [])))
                seq = lit if seq is None else self.seq_concat(seq, lit)
            kwargs = dict(kwargs); kwargs['__vararg__'] = seq if seq is not None else V(TTuple([]), [])
            return self.call_func(fr, pre + lead, kwargs, node)
        args = lead + list(args)
        # concatenate all positionals into one sequence
        seq = None; items = []
        for x in args:
            if isinstance(x, tuple):
                sv = self.iter_of(x[1]); sv = self.materialize(sv) if isinstance(sv, IterV) else sv
                if items:
                    lit = seq_literal(items, T._join_all([i.ty for i in items] + [sv.ty.elem])); items = []
                    seq = lit if seq is None else self.seq_concat(seq, lit)
                seq = sv if seq is None else self.seq_concat(seq, sv)
            else: items.append(self.val(x))
        if items:
            lit = seq_literal(items, T._join_all([i.ty for i in items] + ([seq.ty.elem] if seq is not None else [])))
            seq = lit if seq is None else self.seq_concat(seq, lit)
        if self.branch(seq.t[0] < len(fixed), exceptional=True): self.raise_exc('TypeError')
        pos = [seq_get(seq, z3.IntVal(i)) for i in range(len(fixed))]
        if not a.vararg:
            raise Unsupported('star-args call to a function without *args')
        i = fresh('si', z3.IntSort())
        rest = V(seq.ty, (seq.t[0] - len(fixed), z3.Lambda([i], seq.t[1][i + len(fixed)])))
        kwargs = dict(kwargs); kwargs['__vararg__'] = rest
        return self.call_func(fr, pre + pos, kwargs, node)

    def write_back(self, fr, pname, names, node, recv_node, nv):
        idx = names.index(pname)
        if recv_node is not None:
            if idx == 0: self.assign(recv_node, nv); return
            idx -= 1
        if node is not None and idx < len(node.args):
            self.assign(node.args[idx], nv); return
        raise Unsupported('cannot write back modified argument %s' % pname)

    def pure_result(self, fr, c, argvals, rty):
        argvals = [self.val(a) for a in argvals if isinstance(a, (V, IterV))]
        sorts = [sort_of(a.ty) for a in argvals]
        f = z3.Function('F_' + fr.qual.replace('.', '_').replace('<', '').replace('>', ''), *sorts, sort_of(rty))
        return unpack(f(*[pack(a) for a in argvals]), rty)

    def frame_name(self):
        for fr in reversed(self.frames):
            if fr.get('func') is not None: return fr['func'].name
        return '?'

    # ---------------- statements
    def exec_block(self, body):
        for st in body: self.exec_stmt(st)

    def exec_stmt(self, st):
        self.cur_loc = getattr(st, 'lineno', None)
        meth = getattr(self, 's_' + type(st).__name__, None)
        c = self.frame.get('contract')
        if c is not None and c.abstract:
            head = ast.unparse(st).split('\n')[0].strip()
            ab = c.abstract.get(head)
            if ab is None and any(k.startswith(head + '#') for k in c.abstract):
                # several statements with the same first line: `head#k` names the k-th one in source order within the function
                same = [n_ for n_ in ast.walk(self.frame['func']) if isinstance(n_, ast.stmt) and ast.unparse(n_).split('\n')[0].strip() == head]
                same.sort(key=lambda n_: (n_.lineno, n_.col_offset))
                k_ = [i_ for i_, n_ in enumerate(same) if n_ is st]
                if k_:
                    ab = c.abstract.get('%s#%d' % (head, k_[0]))
                    if ab is not None: head = '%s#%d' % (head, k_[0])
            if ab is not None:
                pre_ = self.st.copy(); pre_.env = dict(self.st.env)      # `old(e)` in the block contract = value of e when the block is entered
                for hf in ab.get('modifies', []):       # heap fields the abstracted block may write
                    if hf == '$alloc': self.havoc_alloc([]); continue
                    cls_, fld_ = hf.split('.'); fty_ = self.w.ty(self.w.classes[cls_][fld_]); self.heap_field(cls_, fld_, fty_)
                    self.st.heap[hf] = fresh('heap_' + cls_ + '_' + fld_, z3.ArraySort(sort_of(TRef(cls_)), sort_of(fty_)))
                self.vf.note_ghost(c, 'abstract:' + head)
                self.vf.note_assumption('assumed block contract in %s: `%s ...` assigns %s ensures %s' % (c.oname, head, sorted(ab.get('assigns', {})), ab.get('ensures', [])))
                facts = []
                for nme, tystr in ab.get('assigns', {}).items(): self.st.env[nme] = havoc(self.w.ty(tystr), nme, facts)
                for f_ in facts: self.assume(f_)
                outcomes_ = ['normal'] + list(ab.get('raises', []))      # the block may also end in one of these exceptions (state havoc'd as above, nothing else known)
                k_ = self.choose(len(outcomes_)) if len(outcomes_) > 1 else 0
                if k_ > 0: self.raise_exc(outcomes_[k_])
                saved_old_ = self.old; self.old = pre_
                try:
                    for e_ in ab.get('ensures', []): self.assume(self.eval_spec(e_))
                finally: self.old = saved_old_
                return
        if meth is None: raise Unsupported('statement %s' % type(st).__name__)
        meth(st)
        if c is not None and c.ghost_after and isinstance(st, (ast.Expr, ast.Assign, ast.AugAssign, ast.Pass)):
            # ghost updates attached (in the sidecar) to a statement, identified by its normalised source text
            upd = c.ghost_after.get(ast.unparse(st))
            if upd:
                self.vf.note_ghost(c, ast.unparse(st))
                for name, expr in upd:
                    if not name.isidentifier():      # ghost field of a heap object, e.g. 'block.conns[conn].g_b'
                        self.assign(ast.parse(name, mode='eval').body, self.val(self.eval_spec_val(expr))); continue
                    gv_ = self.val(self.eval_spec_val(expr))
                    self.st.env[name] = coerce(gv_, self.val(self.st.env[name]).ty) if name in self.st.env else gv_      # (a ghost local is created by its first update)

    def s_Pass(self, st): pass
    def s_Expr(self, st):
        if isinstance(st.value, ast.Constant): return
        self.eval(st.value)
    def s_Return(self, st): raise ReturnSig(self.eval(st.value) if st.value is not None else NONE)
    def s_Break(self, st): raise BreakSig()
    def s_Continue(self, st): raise ContinueSig()
    def s_Global(self, st): pass
    def s_Nonlocal(self, st): pass
    def s_Import(self, st): pass
    def s_ImportFrom(self, st):
        # function-level `from <pkg> import name`: the local name denotes the module / definition it denotes at module level
        m = repo.module(self.frame['rel']); base = m._resolve_from(st)
        for a in st.names:
            info = repo.module_by_dotted(base + '.' + a.name)
            if info is not None: self.st.env[a.asname or a.name] = ModuleRef(base + '.' + a.name, info); continue
            info = repo.module_by_dotted(base)
            if info is not None:
                try: self.st.env[a.asname or a.name] = self.lookup_module(info.relpath, a.name)
                except Unsupported: pass
    def s_Assert(self, st):
        c = self.truth_of(self.val(self.eval(st.test)))
        if not self.branch(c): self.raise_exc('AssertionError')
    def s_Raise(self, st):
        if st.exc is None:
            if not self.exc_stack: raise Unsupported('bare raise outside handler')
            raise RaiseSig(self.exc_stack[-1])
        e = self.eval(st.exc)
        if isinstance(e, ExcClass): e = ExcV(e.name)
        if isinstance(e, V) and e.ty is TExc: e = e.t
        if isinstance(e, V) and isinstance(e.ty, TRef) and e.ty.universal:
            # an exception object received as data (e.g. unpickled from a worker): class unknown, carried as payload
            e = ExcV('Exception', [], {'obj': e})
        if not isinstance(e, ExcV): raise Unsupported('raise of non-exception')
        raise RaiseSig(e)
    def s_AsyncFunctionDef(self, st): self.s_FunctionDef(st)
    def s_FunctionDef(self, st):
        self.frame.setdefault('local_funcs', {})[st.name] = FuncRef(self.frame['rel'], self.vf.qual_of_nested(self.frame, st), st)
    def s_AnnAssign(self, st):
        bags = (self.frame.get('contract').hints.get('kwdict_vars', ()) if self.frame.get('contract') is not None else ())
        if bags and st.value is not None and isinstance(st.target, ast.Name) and st.target.id in bags and isinstance(st.value, (ast.Dict, ast.DictComp)):
            self.st.env[st.target.id] = self.kwdict_of(st.value); return      # (an annotated keyword bag: same treatment as in s_Assign)
        if st.value is not None: self.assign(st.target, self.eval(st.value), ann=st.annotation)
    def s_Assign(self, st):
        bags = (self.frame.get('contract').hints.get('kwdict_vars', ()) if self.frame.get('contract') is not None else ())
        if bags and len(st.targets) == 1 and isinstance(st.targets[0], ast.Name) and st.targets[0].id in bags and isinstance(st.value, (ast.Dict, ast.DictComp)):
            # a local declared (in the sidecar) to be a *keyword bag*: a dict whose keys are constant strings, used to collect keyword arguments;
            # it is kept as a python-level object (key membership is definite on each path), its values may be of any type
            self.st.env[st.targets[0].id] = self.kwdict_of(st.value); return
        v = self.eval(st.value)
        for t in st.targets: self.assign(t, v)

    def const_str(self, v):
        v = self.val(v)
        if v.ty is TStr:
            t = z3.simplify(v.t)
            if z3.is_string_value(t): return t.as_string()
        raise Unsupported('keyword bag: key is not a constant string')

    def kwdict_of(self, node):
        if isinstance(node, ast.Dict):
            if any(k is None for k in node.keys): raise Unsupported('dict unpacking in a keyword bag')
            return KwDict({self.const_str(self.eval(k)): self.eval(v) for k, v in zip(node.keys, node.values)})
        # {kexpr: vexpr for target in <bag>.items() | <constant tuple>}  -- unrolled (the source is finite and known on this path)
        if len(node.generators) != 1 or node.generators[0].ifs or node.generators[0].is_async: raise Unsupported('dict comprehension shape')
        g = node.generators[0]
        src = None
        if isinstance(g.iter, ast.Call) and ast.unparse(g.iter.func) in ('itertools.chain', 'chain'):
            r_ = self.map_comprehension(node, g)
            if r_ is not None: return r_
        if isinstance(g.iter, ast.Call) and isinstance(g.iter.func, ast.Attribute) and g.iter.func.attr == 'items' and not g.iter.args:
            b = self.eval(g.iter.func.value)
            if isinstance(b, KwDict): src = [V(TTuple([TStr, self.val(x).ty]), [vstr(k), self.val(x)]) for k, x in list(b.items.items())]
        if src is None:
            it = self.val(self.eval(g.iter))
            if isinstance(it.ty, TTuple): src = list(it.t)
        if src is None:
            r_ = self.map_comprehension(node, g)
            if r_ is not None: return r_
            raise Unsupported('dict comprehension over something that is not a keyword bag / constant tuple / finite map(s)')
        out = {}
        saved = dict(self.st.env)
        for x in src:
            self.assign(g.target, x)
            k = self.const_str(self.eval(node.key)); out[k] = self.eval(node.value)
        for nme in [n_.id for n_ in ast.walk(g.target) if isinstance(n_, ast.Name)]:      # comprehension variables do not leak
            if nme in saved: self.st.env[nme] = saved[nme]
            else: self.st.env.pop(nme, None)
        return KwDict(out)
    def s_AugAssign(self, st):
        cur = self.val(self.eval(st.target)); rhs = self.val(self.eval(st.value))
        self.assign(st.target, self.binop(st.op, cur, rhs, st))
    def s_Delete(self, st):
        for t in st.targets:
            if isinstance(t, ast.Subscript):
                recv = self.val(self.eval(t.value)); k = self.val(self.eval(t.slice))
                self.assign(t.value, map_del(self, recv, k, strict=True))
            elif isinstance(t, ast.Name): self.st.env.pop(t.id, None)
            else: raise Unsupported('del target')

    def assign(self, target, v, ann=None):
        if isinstance(target, ast.Name):
            if isinstance(v, V) and isinstance(v.ty, TTuple) and not v.t and target.id in self.frame.get('var_types', {}):
                v = coerce(v, self.w.ty(self.frame['var_types'][target.id]))
            elif isinstance(v, V) and target.id in self.frame.get('var_types', {}):
                v = self.co(v, self.w.ty(self.frame['var_types'][target.id]))      # (Optional narrowing when provably not None)
            self.st.env[target.id] = v
        elif isinstance(target, (ast.Tuple, ast.List)):
            if any(isinstance(e, ast.Starred) for e in target.elts):
                return self.assign_starred(target, v)
            items = self.unpack_n(v, len(target.elts))
            for t, x in zip(target.elts, items): self.assign(t, x)
        elif isinstance(target, ast.Attribute):
            obj = self.val(self.eval(target.value))
            if isinstance(obj.ty, TOpt):
                if self.branch(obj.t[0], exceptional=True): self.raise_exc('AttributeError')
                obj = obj.t[1]
            if obj.ty is TExc:
                obj.t.attrs[target.attr] = self.val(v); return
            if not isinstance(obj.ty, TRef): raise Unsupported('attribute store on %r' % obj.ty)
            self.heap_write(obj, target.attr, self.val(v))
        elif isinstance(target, ast.Subscript) and isinstance(self.eval(target.value), KwDict):
            self.eval(target.value).items[self.const_str(self.eval(target.slice))] = v
        elif isinstance(target, ast.Subscript):
            recv = self.val(self.eval(target.value)); k = self.val(self.eval(target.slice))
            if isinstance(recv.ty, TRef) and recv.ty.cls in self.w.dict_classes:
                # a dict held by reference: the update goes to the object, every alias sees it
                m_ = self.heap_read(recv, 'm', self.w.ty(self.w.dict_classes[recv.ty.cls]))
                self.heap_write(recv, 'm', setitem(self, m_, k, self.val(v))); return
            self.assign(target.value, setitem(self, recv, k, self.val(v)))
        else: raise Unsupported('assignment target %s' % type(target).__name__)

    def assign_starred(self, target, v):
        elts = target.elts
        k = [i for i, e in enumerate(elts) if isinstance(e, ast.Starred)]
        if len(k) != 1 or k[0] != len(elts) - 1: raise Unsupported('starred unpacking other than `a, ..., *rest`')
        nfix = len(elts) - 1
        if isinstance(v, IterV): v = self.materialize(v)
        v = self.val(v)
        if isinstance(v.ty, TTuple):
            if len(v.t) < nfix: self.raise_exc('ValueError')
            for t, x in zip(elts[:nfix], v.t): self.assign(t, x)
            rest = v.t[nfix:]
            self.assign(elts[-1].value, V(TTuple([x.ty for x in rest]), rest)); return
        if not isinstance(v.ty, TSeq): raise Unsupported('starred unpacking of %r' % v.ty)
        if self.branch(v.t[0] < nfix, exceptional=True): self.raise_exc('ValueError')
        for i, t in enumerate(elts[:nfix]): self.assign(t, seq_get(v, z3.IntVal(i)))
        j = fresh('si', z3.IntSort())
        self.assign(elts[-1].value, V(v.ty, (v.t[0] - nfix, z3.Lambda([j], v.t[1][j + nfix]))))

    def unpack_n(self, v, n):
        if isinstance(v, IterV): v = self.materialize(v)
        v = self.val(v)
        if isinstance(v.ty, TOpt):
            if self.branch(v.t[0], exceptional=True): self.raise_exc('TypeError')
            v = v.t[1]
        if isinstance(v.ty, TRef) and v.ty.universal:
            self.vf.note_assumption('an opaque object used as a sequence: its items/length are uninterpreted (TypeError/IndexError not modelled)')
            return [V(v.ty, z3.Function('obj_item', sort_of(v.ty), z3.IntSort(), sort_of(v.ty))(v.t, z3.IntVal(i))) for i in range(n)]
        if isinstance(v.ty, TTuple):
            if len(v.t) != n: self.raise_exc('ValueError')
            return v.t
        if isinstance(v.ty, TRec):
            if len(v.ty.fields) != n: self.raise_exc('ValueError')
            return [v.t[f] for f, _ in v.ty.fields]
        if isinstance(v.ty, TSeq):
            if self.branch(v.t[0] != n, exceptional=True): self.raise_exc('ValueError')
            return [seq_get(v, z3.IntVal(i)) for i in range(n)]
        raise Unsupported('unpacking %r' % v.ty)

    def s_If(self, st):
        t_ = self.eval(st.test)
        c = self.truth_of(t_ if isinstance(t_, KwDict) else self.val(t_))
        if self.branch(c): self.exec_block(st.body)
        else: self.exec_block(st.orelse)

    def s_Try(self, st):
        pending = None
        try:
            try:
                self.exec_block(st.body)
            except RaiseSig as r:
                h = self.match_handler(st.handlers, r.exc)
                if h is None: raise
                if h.name: self.st.env[h.name] = V(TExc, r.exc)
                self.exc_stack.append(r.exc)
                try: self.exec_block(h.body)
                finally: self.exc_stack.pop()
            else:
                self.exec_block(st.orelse)
        except FlowSig as sig:
            pending = sig
        if st.finalbody:
            self.exec_block(st.finalbody)     # a flow signal from finally replaces the pending one (python semantics)
        if pending is not None: raise pending

    def match_handler(self, handlers, exc):
        for h in handlers:
            if h.type is None: return h
            names = [h.type] if not isinstance(h.type, ast.Tuple) else h.type.elts
            for nm in names:
                cls = self.eval(nm)
                if isinstance(cls, BuiltinRef) and (cls.name.endswith('Error') or cls.name.endswith('Exception') or cls.name in ('decimal.InvalidOperation',)):
                    cls = ExcClass(cls.name.split('.')[-1])      # an exception class of a library module: known by name only (a direct subclass of Exception)
                if not isinstance(cls, ExcClass): raise Unsupported('except clause class')
                if self.exc_isinstance(exc.cls, cls.name): return h
        return None

    def s_With(self, st):
        # `with m.mutate() as mm:` on an immutables.Map: mm is a private mutable copy (value semantics), mm.finish() its final value
        if len(st.items) == 1 and isinstance(st.items[0].context_expr, ast.Call) and isinstance(st.items[0].context_expr.func, ast.Attribute) \
                and st.items[0].context_expr.func.attr == 'mutate' and st.items[0].optional_vars is not None:
            m = self.val(self.eval(st.items[0].context_expr.func.value))
            if isinstance(m.ty, (TMap, TOMap)) or (isinstance(m.ty, TTuple) and not m.t):
                self.assign(st.items[0].optional_vars, m)
                self.exec_block(st.body); return
        # `with <call> [as v]:` where the call is to code outside reach whose assumed contract says context_manager=True:
        # v is bound to the call's result (what __enter__ returns), the body runs, __exit__ is assumed to restore nothing the contracts
        # mention and not to swallow exceptions (listed as an assumption)
        if len(st.items) == 1 and isinstance(st.items[0].context_expr, ast.Call):
            ce = st.items[0].context_expr
            f_ = self.eval(ce.func) if not (ast.unparse(ce.func) in self.w.ext_funcs) else ExtMethod(None, ast.unparse(ce.func))
            spec_ = None
            if isinstance(f_, ExtMethod): spec_ = (self.frame.get('ext_funcs') or {}).get(f_.key) or self.w.ext_funcs.get(f_.key) or self.w.ext_methods.get(f_.key)
            if spec_ is not None and spec_.get('context_manager'):
                self.vf.note_assumption('context manager %s: the `as` variable is the call result; __exit__ restores nothing the contracts mention and lets exceptions through' % f_.key)
                r_ = self.eval(ce)
                if st.items[0].optional_vars is not None: self.assign(st.items[0].optional_vars, r_)
                self.exec_block(st.body); return
        raise Unsupported('with statement')

    def s_While(self, st): self.loop(st, kind='while')
    def s_For(self, st): self.loop(st, kind='for')

    # ---------------- loops
    def loop_contract(self, st):
        fr = self.frame
        c = fr.get('contract')
        fn = fr.get('func')
        if fn is None: return None, None
        ordn = self.vf.loop_ordinal(fn, st)
        if c is None or ordn not in c.loops: return None, ordn
        lc = c.loops[ordn]
        fp = self.vf.fingerprint(st)
        fp_c = lc.get('fingerprint')
        if fp_c and fp_c.endswith('...'):      # prefix fingerprint: the rest of the loop header may change without making the contract stale
            if not _norm_fp(fp).startswith(_norm_fp(fp_c[:-3])):
                raise StaleContract('loop %d of %s: contract fingerprint %r does not match code %r' % (ordn, c.key, lc['fingerprint'], fp))
        elif lc.get('fingerprint') and _norm_fp(lc['fingerprint']) != _norm_fp(fp):
            raise StaleContract('loop %d of %s: contract fingerprint %r does not match code %r' % (ordn, c.key, lc['fingerprint'], fp))
        return lc, ordn

    def loop(self, st, kind):
        lc, ordn = self.loop_contract(st)
        if lc is None: return self.loop_unrolled(st, kind)
        vf = self.vf; base = '%s/loop%d' % (vf.cur.oname if not self.frame.get('inlined') else self.frame['contract'].oname, ordn)
        idxname = lc.get('index', 'i')
        it = None; setiter = None
        if kind == 'for':
            itv = self.eval(st.iter)
            if isinstance(itv, V) and isinstance(itv.ty, TOpt):
                if self.branch(itv.t[0], exceptional=True): self.raise_exc('TypeError')
                itv = itv.t[1]
            bind = lambda x: x
            if isinstance(itv, V) and isinstance(itv.ty, TMap): itv = MapIterV(itv, 'keys')
            if isinstance(itv, V) and isinstance(itv.ty, TSet):
                setiter = itv
            elif isinstance(itv, MapIterV):
                mp = itv.m; setiter = V(TSet(mp.ty.k), (mp.t[0], mp.t[2]))
                mval = lambda k: unpack(z3.Select(mp.t[1], pack(k)), mp.ty.v)
                if itv.kind == 'values': bind = mval
                elif itv.kind == 'items': bind = lambda k: V(TTuple([mp.ty.k, mp.ty.v]), [k, mval(k)])
            else:
                it = self.iter_of(itv)
                if lc.get('seq'):      # ghost name for the (unnamed) sequence being iterated
                    sv = self.materialize(it); self.st.env[lc['seq']] = sv
                    it = IterV(sv.t[0], lambda i_, sv=sv: seq_get(sv, i_), sv.ty.elem)
        old_fn = self.old
        def spec_env():
            e = dict(self.st.env); return e
        # 1. invariant on entry
        if kind == 'for':
            if setiter is not None:
                done0 = coerce(V(TTuple([]), []), setiter.ty)
                for fct in T.type_facts(done0): self.assume(fct)
                self.st.env[lc.get('done', 'done')] = done0
            else: self.st.env[idxname] = vint(0)
        for h in lc.get('lemmas', []): self.assume_lemma(h)
        for k, inv in enumerate(lc.get('invariant', [])):
            self.prove(self.eval_spec(inv), '%s/inv-init#%d' % (base, k), 'inv-init', inv)
        # 2. havoc
        targets = set(vf.assigned_names(st))
        # ghost variables updated by ghost statements attached to statements of the loop body are loop-modified as well
        c_ = self.frame.get('contract'); ghost_heap = set()
        if c_ is not None and c_.ghost_after:
            for n_ in ast.walk(st):
                if isinstance(n_, (ast.Expr, ast.Assign, ast.AugAssign, ast.Pass)):
                    for gname, _ in c_.ghost_after.get(ast.unparse(n_), ()):
                        if gname.isidentifier(): targets.add(gname)
                        else:
                            fld = gname.split('.')[-1]
                            for cls_, fields_ in self.w.classes.items():
                                if fld in fields_: ghost_heap.add('%s.%s' % (cls_, fld))
        facts = []
        for nme in sorted(targets):
            if nme in self.st.env and isinstance(self.st.env[nme], V):
                tystr = lc.get('vars', {}).get(nme)
                ty = self.w.ty(tystr) if tystr else self.st.env[nme].ty
                if isinstance(ty, TTuple) and not ty.items: raise Unsupported('loop-modified variable %s has no type yet; declare it in loop vars' % nme)
                self.st.env[nme] = havoc(ty, nme, facts)
            elif nme in self.st.env: pass
            elif nme in lc.get('vars', {}):
                self.st.env[nme] = havoc(self.w.ty(lc['vars'][nme]), nme, facts)
        hfs = set(vf.assigned_fields(self, st)) | ghost_heap
        for mname in lc.get('modifies', []):      # declared in the sidecar: state touched through callees / yields inside the loop
            if mname == '$alloc': self.havoc_alloc(facts)
            elif '.' in mname: hfs.add(mname)
            elif mname in self.st.env and isinstance(self.st.env[mname], V): self.st.env[mname] = havoc(self.st.env[mname].ty, mname, facts)
        # ghost / closure state modified by contracts called in the loop
        for n_ in ast.walk(st):
            if isinstance(n_, ast.Call):
                fname = n_.func.id if isinstance(n_.func, ast.Name) else (n_.func.attr if isinstance(n_.func, ast.Attribute) else None)
                for c_ in self.w.contracts.values():
                    if fname and c_.qual.split('.')[-1] == fname:
                        for m_ in c_.modifies:
                            if m_ == '$alloc': self.havoc_alloc(facts)
                            elif '.' not in m_ and m_ in c_.state and m_ in self.st.env and isinstance(self.st.env[m_], V) and m_ not in targets:
                                self.st.env[m_] = havoc(self.st.env[m_].ty, m_, facts)
        for hf in sorted(hfs):
            cls, fld = hf.split('.')
            fty = self.w.ty(self.w.classes[cls][fld]); self.heap_field(cls, fld, fty)
            self.st.heap[hf] = fresh('heap_' + cls + '_' + fld, z3.ArraySort(sort_of(TRef(cls)), sort_of(fty)))
        if kind == 'for':
            if setiter is not None:
                done = havoc(setiter.ty, 'done', facts)
                self.st.env[lc.get('done', 'done')] = done
                facts.append(z3.IsSubset(done.t[0], setiter.t[0])); facts.append(done.t[1] <= setiter.t[1])
            else:
                i = fresh(idxname, z3.IntSort()); facts.append(i >= 0); facts.append(i <= it.ln)
                self.st.env[idxname] = vint(i)
        for f in facts: self.assume(f)
        for inv in lc.get('invariant', []):
            self.assume(self.eval_spec(inv))
        for h in lc.get('lemmas', []): self.assume_lemma(h)
        # decreases snapshot
        dec0 = None
        if lc.get('decreases'):
            dec0 = coerce(self.val(self.eval_spec_val(lc['decreases'])), TInt).t
        # 3. continue or exit
        if kind == 'for':
            if setiter is not None:
                cont = done.t[0] != setiter.t[0]
            else: cont = i < it.ln
        else:
            cont = None
        entered = None
        if kind == 'while':
            # condition evaluation may have side effects / forks: evaluate as code
            entered = self.branch(self.truth_of(self.val(self.eval(st.test))))
        else:
            entered = self.branch(cont)
        if entered:
            if kind == 'for':
                if setiter is not None:
                    x = havoc(setiter.ty.elem, 'elem', facts := [])
                    for f in facts: self.assume(f)
                    xt = pack(x)
                    self.assume(z3.Select(setiter.t[0], xt)); self.assume(z3.Not(z3.Select(done.t[0], xt)))
                    self.st.env[lc.get('cur', 'cur_elem')] = x
                    self.assign(st.target, bind(x))
                    m2, c2, fct = T.set_update(done.t[0], done.t[1], xt, True); self.assume(fct)
                    pending_done = (lc.get('done', 'done'), V(setiter.ty, (m2, c2)))
                else:
                    self.assign(st.target, it.get(i))
            try:
                try:
                    self.exec_block(st.body)
                except ContinueSig:
                    pass
            except BreakSig:
                return     # continue after the loop with the state at the break (no else clause)
            # step: re-establish invariant
            if kind == 'for':
                if setiter is not None:
                    nm, nv = pending_done; self.st.env[nm] = nv
                else: self.st.env[idxname] = vint(i + 1)
            for k, inv in enumerate(lc.get('invariant', [])):
                self.prove(self.eval_spec(inv), '%s/inv-step#%d' % (base, k), 'inv-step', inv)
            if dec0 is not None:
                dec1 = coerce(self.val(self.eval_spec_val(lc['decreases'])), TInt).t
                self.prove(z3.And(dec0 >= 0, dec1 < dec0), '%s/decreases' % base, 'decreases', lc['decreases'])
            raise PathEnd()
        # exit path
        if kind == 'for' and setiter is None: pass
        self.exec_block(st.orelse)

    def assume_lemma(self, h):
        """instantiate a definitional axiom of a recursive spec function (only macros registered as definitional)"""
        name = h.split('(')[0].strip()
        if name not in self.w.definitional:
            raise Unsupported('lemma %s is not a registered definitional axiom' % name)
        self.assume(self.eval_spec(h))

    def eval_spec_val(self, expr):
        tree = self.vf.parse_spec(expr)
        self.spec += 1
        try: return self.eval(tree)
        finally: self.spec -= 1

    def loop_unrolled(self, st, kind):
        bound = self.vf.unroll_bound
        if kind == 'for':
            itv = self.eval(st.iter)
            if isinstance(itv, V) and isinstance(itv.ty, (TTuple, TRec)):
                items = itv.t if isinstance(itv.ty, TTuple) else [itv.t[f] for f, _ in itv.ty.fields]
                broke = False
                for x in items:   # exact: fixed arity
                    self.assign(st.target, x)
                    try:
                        try: self.exec_block(st.body)
                        except ContinueSig: pass
                    except BreakSig:
                        broke = True; break
                if not broke: self.exec_block(st.orelse)
                return
            it = self.iter_of(itv)
            ln = z3.simplify(it.ln)
            if z3.is_int_value(ln): bound = max(bound, ln.as_long() + 1)      # constant length: unrolled exactly
            k = 0
            while True:
                if not self.branch(z3.IntVal(k) < it.ln): break
                if k >= bound:
                    self.vf.note_bounded('loop at line %d unrolled to depth %d' % (st.lineno, bound)); raise PathEnd()
                self.assign(st.target, it.get(z3.IntVal(k)))
                try:
                    try: self.exec_block(st.body)
                    except ContinueSig: pass
                except BreakSig: return
                k += 1
            self.exec_block(st.orelse)
            return
        k = 0
        while True:
            if not self.branch(truth(self.val(self.eval(st.test)))): break
            if k >= bound:
                self.vf.note_bounded('while loop at line %d unrolled to depth %d' % (st.lineno, bound)); raise PathEnd()
            try:
                try: self.exec_block(st.body)
                except ContinueSig: pass
            except BreakSig: return
            k += 1
        self.exec_block(st.orelse)

class StaleContract(Exception): pass

def _norm_fp(s): return re.sub(r'\s+', '', s)

from .pybuiltins import BUILTINS, SPEC_BUILTINS, call_builtin, call_spec, call_method_builtin, setitem, map_del  # noqa: E402
