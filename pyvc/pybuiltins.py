"""Models of Python builtins / library methods used by the verified functions, and the
specification-only functions (forall, implies, old, ...).  Each model is exact for the
stated argument types or raises Unsupported."""
import ast, os
import z3
from .vtypes import *
from . import vtypes as T
from . import engine as E

BUILTINS = {'len', 'int', 'str', 'bool', 'min', 'max', 'sum', 'abs', 'list', 'tuple', 'set', 'frozenset', 'dict', 'zip',
            'enumerate', 'reversed', 'range', 'isinstance', 'any', 'all', 'sorted', 'repr', 'print', 'iter', 'next',
            'bytes', 'float', 'id', 'hash', 'type', 'getattr', 'hasattr', 'divmod', 'chr', 'ord', 'format', 'super',
            'callable', 'object', 'NotImplemented', 'round', 'issubclass'}
SPEC_BUILTINS = {'seq_tab', 'allocated', 'forall', 'exists', 'implies', 'iff', 'old', 'ite', 'seq_get', 'subset', 'setof', 'distinct', 'is_prefix',
                 'is_none', 'some', 'emptyset', 'set_add', 'set_remove', 'seq_take', 'seq_drop', 'index_of', 'card',
                 'str_len', 'str_at', 'str_contains', 'str_indexof', 'str_prefixof', 'str_suffixof', 'str_sub',
                 'str_replace_first', 'domain', 'map_get', 'unchanged', 'map_same_except', 'heap_same', 'heap_same_except', 'map_same', 'okey', 'opos', 'oval', 'osame', 'oprefix', 'fun_set', 'has_flag', 'in_re_pat', 'in_re', 'int_to_str', 'str_to_int', 'str_lt', 'str_le'}

def _len_term(ex, v):
    ty = v.ty
    if ty is TStr or ty is T.TBytes: return z3.Length(v.t)
    if isinstance(ty, TSeq): return v.t[0]
    if isinstance(ty, TSet): return v.t[1]
    if isinstance(ty, TMap): return v.t[2]
    if isinstance(ty, TOMap): return v.t[0]
    if isinstance(ty, TTuple): return z3.IntVal(len(v.t))
    if isinstance(ty, TRec): return z3.IntVal(len(ty.fields))
    if isinstance(ty, TRef) and ty.universal:
        ln = z3.Function('obj_len', sort_of(ty), z3.IntSort())(v.t); ex.assume(ln >= 0); return ln
    raise Unsupported('len of %r' % ty)

def call_builtin(ex, name, args, kwargs, node):
    star = [a for a in args if isinstance(a, tuple)]
    if name == 'zip' and star:
        if len(args) != 1: raise Unsupported('zip(*x, ...)')
        return _zip_star(ex, args[0][1])
    if star: raise Unsupported('star-args to builtin %s' % name)
    if name == 'len':
        a = args[0]
        if isinstance(a, E.IterV): return vint(a.ln)
        a = ex.val(a)
        if isinstance(a.ty, TOpt):
            if not ex.spec and ex.branch(a.t[0], exceptional=True): ex.raise_exc('TypeError')
            a = a.t[1]
        return vint(_len_term(ex, a))
    if name == 'int':
        a = ex.val(args[0])
        if a.ty in (TInt, TBool) or (isinstance(a.ty, TEnum) and a.ty.intvalued): return coerce(a, TInt)
        if a.ty is TStr:
            ok = z3.And(z3.Length(a.t) > 0, z3.InRe(a.t, z3.Plus(z3.Range('0', '9'))))
            ex.vf.note_assumption('int(str) modelled for ASCII decimal digit strings; anything else raises ValueError '
                                  '(sign, whitespace, underscores, non-ASCII digits are over-approximated as ValueError)')
            if not ex.spec and ex.branch(z3.Not(ok), exceptional=True): ex.raise_exc('ValueError')
            return vint(z3.StrToInt(a.t))
        raise Unsupported('int(%r)' % a.ty)
    if name == 'ord':
        a = ex.val(args[0]); c = ex.const_py(a)
        if c is not None and len(c[0]) == 1: return vint(ord(c[0]))
        return vint(z3.StrToCode(a.t))
    if name == 'chr':
        a = ex.val(args[0]); c = ex.const_py(a)
        if c is not None: return vstr(chr(c[0]))
        return V(TStr, z3.StrFromCode(coerce(a, TInt).t))
    if name == 'bool': return vbool(truth(ex.val(args[0])))
    if name == 'str':
        if not args: return vstr('')
        return ex.to_str(ex.val(args[0]))
    if name == 'abs':
        a = coerce(ex.val(args[0]), TInt); return vint(z3.If(a.t >= 0, a.t, -a.t))
    if name in ('min', 'max'):
        return _minmax(ex, name, args, kwargs)
    if name == 'sum':
        start = kwargs.get('start', args[1] if len(args) > 1 else vint(0))
        return _fold_sum(ex, ex.iter_of(args[0]), ex.val(start), node)
    if name == 'iter' and len(args) == 1: return args[0] if isinstance(args[0], (E.IterV, E.MapIterV)) else ex.iter_of(args[0])
    if name == 'next' and len(args) == 1:
        a = args[0]
        if isinstance(a, E.MapIterV):      # first element of an unordered map: some element
            mp = a.m
            if ex.branch(mp.t[2] == 0, exceptional=True): ex.raise_exc('StopIteration')
            k = T.havoc(mp.ty.k, 'nextkey', facts := [])
            for f in facts: ex.assume(f)
            ex.assume(z3.Select(mp.t[0], pack(k)))
            v_ = unpack(z3.Select(mp.t[1], pack(k)), mp.ty.v)
            return k if a.kind == 'keys' else (v_ if a.kind == 'values' else V(TTuple([mp.ty.k, mp.ty.v]), [k, v_]))
        if isinstance(a, E.IterV):
            if ex.branch(a.ln == 0, exceptional=True): ex.raise_exc('StopIteration')
            return a.get(z3.IntVal(0))
        raise Unsupported('next() of %s' % type(a).__name__)
    if name == 'round' and len(args) == 1:
        a = ex.val(args[0])
        if a.ty is TInt: return a
        ex.vf.note_assumption('round(float) treated as an arbitrary integer')
        return vint(fresh('round', z3.IntSort()))
    if name == 'float' and len(args) == 1:
        a = ex.val(args[0])
        if a.ty is T.TFloat: return a
        if a.ty in (TInt, TBool): return coerce(a, T.TFloat)
        ex.vf.note_assumption('float(str) treated as an arbitrary float (inf / nan not modelled)')
        return V(T.TFloat, fresh('flt', z3.RealSort()))
    if name in ('list', 'tuple'):
        if not args: return V(TTuple([]), [])
        a = args[0]
        if isinstance(a, E.MapIterV):      # the keys / values / items of an unordered map, in some order
            mp = a.m; kf = fresh('mkeys', z3.ArraySort(z3.IntSort(), T.sort_of(mp.ty.k))); i = fresh('mi', z3.IntSort()); j = fresh('mj', z3.IntSort())
            ex.assume(z3.ForAll([i], z3.Implies(z3.And(i >= 0, i < mp.t[2]), z3.Select(mp.t[0], kf[i]))))
            ex.assume(z3.ForAll([i, j], z3.Implies(z3.And(i >= 0, i < j, j < mp.t[2]), kf[i] != kf[j])))
            def el(ix):
                k = unpack(kf[ix], mp.ty.k); v_ = unpack(z3.Select(mp.t[1], kf[ix]), mp.ty.v)
                return k if a.kind == 'keys' else (v_ if a.kind == 'values' else V(TTuple([mp.ty.k, mp.ty.v]), [k, v_]))
            return ex.materialize(E.IterV(mp.t[2], el, None))
        if isinstance(a, E.IterV): return ex.materialize(a)
        a = ex.val(a)
        if isinstance(a.ty, (TSeq, TTuple)): return a
        if isinstance(a.ty, TRec): return V(TTuple([t for _, t in a.ty.fields]), [a.t[f] for f, _ in a.ty.fields])
        if isinstance(a.ty, TSet): return _seq_of_set(ex, a)
        if isinstance(a.ty, TOMap): return ex.materialize(ex.iter_of(a))
        raise Unsupported('%s(%r)' % (name, a.ty))
    if name in ('set', 'frozenset'):
        if not args:
            hint = ex.frame.get('var_types', {})
            return V(TTuple([]), [])   # empty, typed on assignment via var_types
        a = args[0]
        if isinstance(a, E.MapIterV) and isinstance(a.m.ty, TMap) and a.kind in ('values', 'keys'):
            # set(m.values()) / set(m.keys()): kept as the view itself -- the only thing done with it is a membership test (x in it iff some key maps to x)
            return a
        if isinstance(a, E.IterV): a = ex.materialize(a)
        a = ex.val(a)
        if isinstance(a.ty, TSet): return a
        if isinstance(a.ty, TTuple):
            if not a.t: return a
            a = coerce(a, TSeq(T._join_all(a.ty.items)))
        if isinstance(a.ty, TSeq): return _set_of_seq(ex, a)
        raise Unsupported('set(%r)' % a.ty)
    if name == 'zip':
        its = [ex.iter_of(a) for a in args]
        ln = its[0].ln
        for it in its[1:]: ln = z3.If(it.ln < ln, it.ln, ln)
        def get(i):
            xs = [ex.val(it.get(i)) for it in its]
            return V(TTuple([x.ty for x in xs]), xs)
        return E.IterV(z3.simplify(ln), get)
    if name == 'enumerate':
        it = ex.iter_of(args[0]); start = coerce(ex.val(kwargs.get('start', args[1] if len(args) > 1 else vint(0))), TInt)
        def get(i):
            x = ex.val(it.get(i)); return V(TTuple([TInt, x.ty]), [vint(i + start.t), x])
        return E.IterV(it.ln, get)
    if name == 'reversed':
        it = ex.iter_of(args[0])
        return E.IterV(it.ln, lambda i: it.get(it.ln - 1 - i), it.ety)
    if name == 'range':
        xs = [coerce(ex.val(a), TInt).t for a in args]
        if len(xs) == 1: lo, hi = z3.IntVal(0), xs[0]
        elif len(xs) == 2: lo, hi = xs
        else: raise Unsupported('range with step')
        return E.IterV(z3.If(hi > lo, hi - lo, z3.IntVal(0)), lambda i: vint(lo + i), TInt)
    if name in ('any', 'all'):
        it = ex.iter_of(args[0])
        i = fresh('qi', z3.IntSort())
        elem = ex.pure_elem(it, i)
        body = truth(elem)
        rng = z3.And(i >= 0, i < it.ln)
        if name == 'any': return vbool(z3.Exists([i], z3.And(rng, body)))
        return vbool(z3.ForAll([i], z3.Implies(rng, body)))
    if name == 'getattr' and len(args) == 3:
        uni = [t_ for t_ in ex.w.types.values() if isinstance(t_, T.TRef) and t_.universal]
        if uni:
            ex.vf.note_assumption('getattr(obj, name, default) with a default: result treated as an arbitrary object')
            return V(uni[0], fresh('getattr', T.sort_of(uni[0])))
    if name == 'type' and len(args) == 1:
        a0 = ex.val(args[0])
        if isinstance(a0.ty, TRef) and not a0.ty.universal and a0.ty.cls in ex.w.class_src:
            rel_, cls_ = ex.w.class_src[a0.ty.cls]
            ex.vf.note_assumption('type(x) of a %s taken to be %s itself (no subclass instances)' % (a0.ty.cls, cls_))
            return ex.class_obj(rel_, cls_)
        uni = [t_ for t_ in ex.w.types.values() if isinstance(t_, T.TRef) and t_.universal]
        if isinstance(a0.ty, TRef) and uni:      # the class of an opaque object: an opaque class object, a function of the object
            ty_ = ex.w.types.get('Ty') if isinstance(ex.w.types.get('Ty'), T.TRef) else uni[0]
            return V(ty_, z3.Function('type_of_' + a0.ty.cls, T.sort_of(a0.ty), T.sort_of(ty_))(a0.t))
        raise Unsupported('type() of %r' % a0.ty)
    if name == 'issubclass' and len(args) == 2 and isinstance(args[0], V) and isinstance(args[0].ty, TRef) and args[0].ty.universal and isinstance(args[1], (E.ClassRef, E.BuiltinRef)):
        # a class object known only as an opaque value against a named class: an uninterpreted predicate
        cn = args[1].name.split('.')[-1]
        return vbool(z3.Function('issubclass_' + cn, T.sort_of(args[0].ty), z3.BoolSort())(args[0].t))
    if name == 'isinstance':
        return vbool(_isinstance(ex, args[0], args[1]))
    if name == 'repr' or name == 'format':
        ex.vf.note_assumption('%s() treated as an arbitrary string' % name)
        return V(TStr, fresh('repr', z3.StringSort()))
    if name == 'print': return NONE
    if name == 'sorted':
        raise Unsupported('sorted')
    if name == 'divmod':
        a, b = ex.val(args[0]), ex.val(args[1])
        q = ex.binop(ast.FloorDiv(), a, b); r = ex.binop(ast.Mod(), a, b)
        return V(TTuple([TInt, TInt]), [q, r])
    if name in ('immutables.Map', 'immu.Map', 'dict') and len(args) == 1 and not kwargs and isinstance(args[0], V) and isinstance(args[0].ty, (TMap,)):
        return args[0]          # a copy of a finite map (value semantics)
    if name in ('immutables.Map', 'immu.Map') and len(args) == 1 and not kwargs:
        a = ex.val(args[0])
        if isinstance(a.ty, TSeq) and z3.is_int_value(z3.simplify(a.t[0])) and isinstance(a.ty.elem, TTuple) and len(a.ty.elem.items) == 2:
            # a list literal of (key, value) pairs
            n_ = z3.simplify(a.t[0]).as_long()
            a = V(TTuple([a.ty.elem] * n_), [T.seq_get(a, z3.IntVal(i_)) for i_ in range(n_)])
        if isinstance(a.ty, TTuple) and all(isinstance(x.ty, TTuple) and len(x.t) == 2 for x in a.t) and a.t:
            kty = T._join_all([x.t[0].ty for x in a.t]); vty = T._join_all([x.t[1].ty for x in a.t])
            mv = coerce(V(TTuple([]), []), T.TMap(kty, vty))
            for x in a.t: mv = setitem(ex, mv, x.t[0], x.t[1])
            return mv
    if name == 'dict' and not args and kwargs and '**' not in kwargs:
        return E.KwDict(kwargs)
    if name in ('dict', 'immutables.Map', 'immu.Map'):
        if not args and not kwargs: return V(TTuple([]), [])
        raise Unsupported('dict(...)')
    if name in ('collections.defaultdict', 'defaultdict', 'collections.OrderedDict', 'OrderedDict') or (name in ('collections.deque', 'deque') and not args):
        return V(TTuple([]), [])
    if name in ('typing.cast', 'cast'): return args[1]
    if name in ('re.search', 're.match', 're.fullmatch') and len(args) >= 2:
        rx = call_builtin(ex, 're.compile', [args[0]] + list(args[2:]), kwargs, node)
        return call_method_builtin(ex, E.BoundBuiltin(rx, name), [args[1]], {}, node)
    if name == 're.compile':
        from . import strlib
        pat = ex.val(args[0]); flags = 0
        if pat.ty not in (TStr, T.TBytes) or not z3.is_string_value(z3.simplify(pat.t)): raise Unsupported('re.compile of a non-constant pattern')
        fl = list(args[1:]) + ([kwargs['flags']] if 'flags' in kwargs else [])
        import re as _re
        for f_ in fl:
            if isinstance(f_, E.BuiltinRef) and f_.name.startswith('re.'): flags |= int(getattr(_re, f_.name[3:]))
            else: raise Unsupported('regex flags')
        return strlib.RegexV(strlib._unescape_z3(z3.simplify(pat.t).as_string()), flags, pat.ty is T.TBytes)
    if name == 'pickle.loads':
        # may fail with an arbitrary exception; otherwise the uninterpreted inverse of dumps
        if not ex.spec and ex.choose(2) == 1: ex.raise_exc('PickleError')     # some Exception subclass; named so that it cannot mask others
        return call_spec(ex, 'unpk', [ex.val(args[0])], {}, node)
    if name == 'pickle.dumps':
        return call_spec(ex, 'pk', [ex.val(args[0])], {}, node)
    if name == 'dataclasses.replace' and len(args) == 1 and '**' not in kwargs:
        # dataclasses.replace(obj, field=value, ...) on a frozen dataclass modelled by value: a copy with the given fields replaced
        a = ex.val(args[0])
        if not isinstance(a.ty, TRec): raise Unsupported('dataclasses.replace on %r' % a.ty)
        vals = dict(a.t)
        for k, v in kwargs.items():
            if k not in vals: raise Unsupported('dataclasses.replace: unknown field %s' % k)
            vals[k] = coerce(ex.val(v), a.ty.fty(k))
        return V(a.ty, vals)
    if name == 'functools.partial':
        fn = args[0]
        if not isinstance(fn, E.FuncRef): raise Unsupported('functools.partial of a non-function')
        tyname = ex.w.partial_types.get(getattr(fn, 'qual', None)) or ex.w.partial_types.get(fn.node.name)
        if tyname is None: raise Unsupported('functools.partial(%s) has no declared record type' % fn.node.name)
        ty = ex.w.ty(tyname)
        vals = {}
        fnames = [f for f, _ in ty.fields]
        extras = {k: v for k, v in kwargs.items() if k not in fnames and k != '**'}      # keyword arguments from an expanded keyword bag
        for f, fty in ty.fields:
            if f in kwargs: vals[f] = ex.co(kwargs[f], fty)
            elif f == 'kw':
                m = ex.co(kwargs.get('**', V(TTuple([]), [])), fty)
                for k, v in extras.items(): m = setitem(ex, m, vstr(k), ex.val(v))
                vals[f] = m
            else: raise Unsupported('partial: field %s not bound' % f)
        return V(ty, vals)
    raise Unsupported('builtin %s' % name)

def _isinstance(ex, obj, cls):
    if isinstance(cls, V) and isinstance(cls.ty, TTuple):
        raise Unsupported('isinstance with symbolic tuple')
    classes = cls if isinstance(cls, list) else [cls]
    if isinstance(obj, E.ExcV): obj = V(TExc, obj)
    obj = ex.val(obj)
    res = []
    for c in classes:
        res.append(_isinstance1(ex, obj, c))
    return z3.Or(*res) if len(res) > 1 else res[0]

def _isinstance1(ex, obj, c):
    ty = obj.ty
    if isinstance(c, E.BuiltinRef):
        tn = c.name
        if isinstance(ty, TOpt):
            return z3.And(z3.Not(obj.t[0]), _isinstance1(ex, obj.t[1], c))
        m = {'int': ty in (TInt, TBool) or (isinstance(ty, TEnum) and ty.intvalued), 'bool': ty is TBool, 'str': ty is TStr or (isinstance(ty, TEnum) and all(isinstance(x, str) for x in ty.values) and _is_strenum(ex, ty)),
             'float': ty is TFloat, 'tuple': isinstance(ty, (TTuple, TRec)), 'list': isinstance(ty, TSeq), 'type(None)': ty is TNone}
        if tn in m: return z3.BoolVal(bool(m[tn]))
        if isinstance(ty, TRef) and ty.universal and '.' in tn:      # a class defined outside reach (compiled module): an uninterpreted predicate on opaque objects
            return z3.Function('isinstance_' + tn.split('.')[-1], sort_of(ty), z3.BoolSort())(obj.t)
        raise Unsupported('isinstance(_, %s)' % tn)
    if isinstance(c, E.ExcClass):
        if ty is TExc: return z3.BoolVal(ex.exc_isinstance(obj.t.cls, c.name))
        if isinstance(ty, TOpt): return z3.And(z3.Not(obj.t[0]), _isinstance1(ex, obj.t[1], c))
        if isinstance(ty, TRef) and ty.universal:
            return z3.Function('isinstance_' + c.name, sort_of(ty), z3.BoolSort())(obj.t)
        return z3.BoolVal(False)
    if isinstance(c, E.ClassRef):
        if isinstance(ty, TOpt):
            return z3.And(z3.Not(obj.t[0]), _isinstance1(ex, obj.t[1], c))
        if ty is TNone: return z3.BoolVal(False)
        cty = ex.type_for_class(c.rel, c.name)
        if cty is not None and cty == ty: return z3.BoolVal(True)
        if isinstance(ty, (TEnum, TRec, T.TSeq, T.TTuple, T.TSet, T.TMap)) or ty in (TInt, TBool, TStr, TFloat): return z3.BoolVal(False)      # (builtin containers / scalars are instances of no repository class)
        if isinstance(ty, TRef) and ty.universal:
            return z3.Function('isinstance_' + c.name, sort_of(ty), z3.BoolSort())(obj.t)
        if isinstance(ty, TRef):
            return ex.vf.subclass_test(ex, obj, c)
        raise Unsupported('isinstance(%r, %s)' % (ty, c.name))
    if isinstance(c, V) and isinstance(c.ty, TRef) and c.ty.universal and isinstance(ty, (TRef, TOpt)):
        # class object known only as an opaque value: an uninterpreted relation between object and class
        o = obj
        if isinstance(ty, TOpt): return z3.And(z3.Not(obj.t[0]), _isinstance1(ex, obj.t[1], c))
        return z3.Function('isinstance_dyn', sort_of(ty), sort_of(c.ty), z3.BoolSort())(o.t, c.t)
    raise Unsupported('isinstance class arg')

def _is_strenum(ex, ty):
    src = ex.w.enum_src.get(ty.name)
    if not src: return False
    node, _ = E.repo.find_def(*src)
    return any('Str' in ast.unparse(b) or ast.unparse(b) == 'str' for b in node.bases)

def _zip_star(ex, x):
    """zip(*X) for X a sequence of fixed-arity tuples/records: transposition.
    Python: [] if X is empty, else k tuples of length len(X)."""
    it = ex.iter_of(x)
    i0 = fresh('zi', z3.IntSort())
    ex.push(); ex.nofork += 1
    try:
        ex.solver.add(i0 >= 0, i0 < it.ln); ex.ground.add(i0 >= 0, i0 < it.ln)
        try: probe = ex.val(it.get(i0))
        except E.NeedFork: raise Unsupported('zip(*...) element needs a fork')
    finally:
        ex.nofork -= 1; ex.pop()
    if isinstance(probe.ty, TRec): k = len(probe.ty.fields); comp = lambda v, j: v.t[v.ty.fields[j][0]]
    elif isinstance(probe.ty, TTuple): k = len(probe.t); comp = lambda v, j: v.t[j]
    else: raise Unsupported('zip(*seq of %r)' % probe.ty)
    seq = ex.materialize(it)     # Seq of records (element facts generalised there)
    cols = []
    for j in range(k):
        i = fresh('zj', z3.IntSort())
        el = comp(seq_get(seq, i), j)
        cols.append(V(TSeq(el.ty), (seq.t[0], z3.Lambda([i], pack(el)))))
    ety = T._join_all([c.ty for c in cols])
    full = seq_literal(cols, ety)
    return E.IterV(z3.If(seq.t[0] > 0, z3.IntVal(k), z3.IntVal(0)), lambda idx: seq_get(full, idx), ety)

def _minmax(ex, name, args, kwargs):
    if kwargs: raise Unsupported('%s with key/default' % name)
    if len(args) >= 2:
        vals = [ex.val(a) for a in args]
        r = vals[0]
        for v in vals[1:]:
            x, y = ex.ord_terms(v, r)
            c = (x < y) if name == 'min' else (x > y)
            r = vite(c, v, r)
        return r
    it = ex.iter_of(args[0])
    a = ex.materialize(it) if not isinstance(args[0], V) or not isinstance(args[0].ty, TSeq) else args[0]
    if isinstance(a.ty, TTuple): a = coerce(a, TSeq(T._join_all(a.ty.items)))
    ln = a.t[0]
    if not ex.spec and ex.branch(ln == 0, exceptional=True): ex.raise_exc('ValueError')
    facts = []
    r = havoc(a.ty.elem, name, facts)
    for f in facts: ex.assume(f)
    k = fresh('wit', z3.IntSort()); i = fresh('qi', z3.IntSort())
    ex.assume(z3.And(k >= 0, k < ln, veq(seq_get(a, k), r)))
    x, y = ex.ord_terms(seq_get(a, i), r)
    ex.assume(z3.ForAll([i], z3.Implies(z3.And(i >= 0, i < ln), (x >= y) if name == 'min' else (x <= y))))
    return r

def _fold_sum(ex, it, start, node):
    """sum(xs, start): acc = start; for x in xs: acc = acc + x — cut by the sidecar fold invariant"""
    fr = ex.frame; c = fr.get('contract')
    ordn = ex.call_counts.get('sum', 0); ex.call_counts['sum'] = ordn + 1
    lc = (c.loops if c else {}).get('sum#%d' % ordn)
    add = lambda a, x: ex.binop(ast.Add(), a, ex.val(x), node)
    if lc is None:
        acc = start; k = 0
        while True:
            if not ex.branch(z3.IntVal(k) < it.ln): return acc
            if k >= ex.vf.unroll_bound:
                ex.vf.note_bounded('sum() fold unrolled to depth %d' % ex.vf.unroll_bound); raise E.PathEnd()
            acc = add(acc, it.get(z3.IntVal(k))); k += 1
    base = '%s/sum%d' % (ex.vf.cur.oname, ordn)
    accn, idxn = lc.get('acc', 'acc'), lc.get('index', 'i')
    saved = {k: ex.st.env.get(k) for k in (accn, idxn)}
    ex.st.env[accn] = start; ex.st.env[idxn] = vint(0)
    for h in lc.get('lemmas', []): ex.assume_lemma(h)
    for k, inv in enumerate(lc['invariant']):
        ex.prove(ex.eval_spec(inv), '%s/inv-init#%d' % (base, k), 'inv-init', inv)
    facts = []
    acc = havoc(ex.w.ty(lc['acc_type']) if 'acc_type' in lc else start.ty, accn, facts)
    i = fresh(idxn, z3.IntSort()); facts += [i >= 0, i <= it.ln]
    for f in facts: ex.assume(f)
    ex.st.env[accn] = acc; ex.st.env[idxn] = vint(i)
    for inv in lc['invariant']: ex.assume(ex.eval_spec(inv))
    if ex.branch(i < it.ln):
        for h in lc.get('lemmas', []): ex.assume_lemma(h)
        acc2 = add(acc, it.get(i))
        ex.st.env[accn] = acc2; ex.st.env[idxn] = vint(i + 1)
        for k, inv in enumerate(lc['invariant']):
            ex.prove(ex.eval_spec(inv), '%s/inv-step#%d' % (base, k), 'inv-step', inv)
        raise E.PathEnd()
    for k, v in saved.items():
        if v is None: ex.st.env.pop(k, None)
        else: ex.st.env[k] = v
    # keep the final facts available under the contract-chosen names for the caller's reasoning
    ex.st.env['__' + accn] = acc
    return acc

def _set_of_seq(ex, a):
    ety = a.ty.elem
    mem = fresh('setof', z3.ArraySort(sort_of(ety), z3.BoolSort())); card = T.card_fn(mem)
    i = fresh('qi', z3.IntSort()); x = fresh('qx', sort_of(ety)); j = fresh('qj', z3.IntSort())
    ex.assume(z3.ForAll([i], z3.Implies(z3.And(i >= 0, i < a.t[0]), z3.Select(mem, a.t[1][i]))))
    ex.assume(z3.ForAll([x], z3.Implies(z3.Select(mem, x), z3.Exists([j], z3.And(j >= 0, j < a.t[0], a.t[1][j] == x)))))
    for f in set_facts(mem, card, TSet(ety)): ex.assume(f)
    ex.assume(card <= a.t[0])
    return V(TSet(ety), (mem, card))

def _seq_of_set(ex, s):
    ety = s.ty.elem
    facts = []; q = havoc(TSeq(ety), 'listof', facts)
    for f in facts: ex.assume(f)
    i = fresh('qi', z3.IntSort()); j = fresh('qj', z3.IntSort()); x = fresh('qx', sort_of(ety))
    ex.assume(q.t[0] == s.t[1])
    ex.assume(z3.ForAll([i], z3.Implies(z3.And(i >= 0, i < q.t[0]), z3.Select(s.t[0], q.t[1][i]))))
    ex.assume(z3.ForAll([x], z3.Implies(z3.Select(s.t[0], x), z3.Exists([j], z3.And(j >= 0, j < q.t[0], q.t[1][j] == x)))))
    ex.assume(z3.ForAll([i, j], z3.Implies(z3.And(i >= 0, i < j, j < q.t[0]), q.t[1][i] != q.t[1][j])))
    return q

# ------------------------------------------------------------------ methods on builtin types
def call_method_builtin(ex, bm, args, kwargs, node):
    recv, name = bm.recv, bm.name
    if name == 'update' and len(args) == 1 and isinstance(args[0], E.KwDict):
        if isinstance(recv, E.KwDict): recv.items.update(args[0].items); return NONE
        if isinstance(recv, V) and isinstance(recv.ty, TTuple) and not recv.t:      # {}.update(dict(...))
            ex.assign(bm.recv_node, E.KwDict(args[0].items)); return NONE
    from . import strlib
    if isinstance(recv, strlib.RegexV) and name == 're.sub':
        return ex.vf.regex_sub(ex, recv, args, kwargs)
    if isinstance(recv, strlib.RegexV):
        s = ex.val(args[0])
        if isinstance(s.ty, TOpt): s = ex.co(s, s.ty.inner)
        matched, mv = strlib.regex_match(ex, recv, s, name.split('.')[1])
        return V(T.TMatch, (matched, mv))
    ty = recv.ty
    if ty is T.TMatch:
        mv = recv.t[1]
        if name == 'match.group':
            if not ex.spec and ex.branch(z3.Not(recv.t[0]), exceptional=True): ex.raise_exc('AttributeError')
            key = args[0] if args else vint(0)
            k = const_key(ex, key)
            if isinstance(k, str): k = mv.names.get(k)
            if k is None or k not in mv.groups or mv.groups[k] is None: raise Unsupported('regex group %r' % (k,))
            return mv.groups[k]
        if name in ('match.start', 'match.end') and not args and getattr(mv, 'head', None) is not None:
            if not ex.spec and ex.branch(z3.Not(recv.t[0]), exceptional=True): ex.raise_exc('AttributeError')
            st_ = z3.Length(mv.head)
            return vint(st_ if name == 'match.start' else st_ + z3.Length(mv.whole))
        raise Unsupported(name)
    args = [a if isinstance(a, (E.IterV, E.PyObj)) else ex.val(a) for a in args]
    if name == '_replace' and isinstance(ty, TRec):
        vals = dict(recv.t)
        star = kwargs.pop('**', None)
        if star is not None:
            star = ex.val(star)
            if isinstance(star.ty, TMap) and star.ty.k is TStr:
                for f, fty in ty.fields:
                    kt = zs(f)
                    vals[f] = vite(z3.Select(star.t[0], kt), ex.co(unpack(z3.Select(star.t[1], kt), star.ty.v), fty), vals[f])
            elif not (isinstance(star.ty, TTuple) and not star.t): raise Unsupported('_replace(**%r)' % star.ty)
        for k, v in kwargs.items(): vals[k] = coerce(ex.val(v), ty.fty(k))
        return V(ty, vals)
    if ty is TStr: return _str_method(ex, recv, name, args, kwargs)
    if ty is T.TBytes and name == 'join':
        ex.vf.note_assumption('bytes.join() result treated as an arbitrary byte string')
        return V(T.TBytes, fresh('joined', z3.StringSort()))
    if ty is T.TBytes and name == 'decode':
        ex.vf.note_assumption('bytes.decode() modelled as the identity on code points (exact for ASCII text)')
        return V(TStr, recv.t)
    if isinstance(ty, TTuple) and not recv.t and name in E.MUTATING:
        # empty untyped collection literal: type from the first mutation
        if name == 'append':
            nv = seq_literal([args[0]], args[0].ty); ex.assign(bm.recv_node, nv); return NONE
        if name == 'add':
            nv = _set_of_seq(ex, seq_literal([args[0]], args[0].ty)); ex.assign(bm.recv_node, nv); return NONE
        raise Unsupported('mutation %s of untyped empty collection (declare var type)' % name)
    if isinstance(ty, (TSeq, TTuple)): return _seq_method(ex, bm, recv, name, args, kwargs)
    if isinstance(ty, TSet): return _set_method(ex, bm, recv, name, args, kwargs)
    if isinstance(ty, TMap): return _map_method(ex, bm, recv, name, args, kwargs)
    if isinstance(ty, TOMap): return _omap_method(ex, bm, recv, name, args, kwargs)
    raise Unsupported('method %s on %r' % (name, ty))

def const_key(ex, v):
    v = ex.val(v); t = z3.simplify(v.t)
    if v.ty is TStr and z3.is_string_value(t): return t.as_string()
    if v.ty is TInt and z3.is_int_value(t): return t.as_long()
    raise Unsupported('non-constant group key')

def _str_method(ex, s, name, args, kwargs):
    t = s.t
    if name == 'replace':
        a, b = args[0], args[1]
        from . import strlib
        return V(TStr, strlib.smart_replace(ex, t, a.t, b.t))
    if name == 'removeprefix':
        p_ = args[0].t
        return V(TStr, z3.If(z3.PrefixOf(p_, t), z3.SubString(t, z3.Length(p_), z3.Length(t) - z3.Length(p_)), t))
    if name == 'removesuffix':
        p_ = args[0].t
        return V(TStr, z3.If(z3.And(z3.SuffixOf(p_, t), z3.Length(p_) > 0), z3.SubString(t, 0, z3.Length(t) - z3.Length(p_)), t))
    if name == 'startswith':
        if isinstance(args[0].ty, TTuple): return vbool(z3.Or(*[z3.PrefixOf(x.t, t) for x in args[0].t]))
        return vbool(z3.PrefixOf(args[0].t, t))
    if name == 'endswith':
        if isinstance(args[0].ty, TTuple): return vbool(z3.Or(*[z3.SuffixOf(x.t, t) for x in args[0].t]))
        a0 = z3.simplify(args[0].t)
        if z3.is_string_value(a0) and not z3.is_string_value(z3.simplify(t)):
            return vbool(z3.InRe(t, z3.Concat(z3.Star(z3.AllChar(z3.ReSort(z3.StringSort()))), z3.Re(a0))))
        return vbool(z3.SuffixOf(args[0].t, t))
    if name == 'find': return vint(z3.IndexOf(t, args[0].t, coerce(args[1], TInt).t if len(args) > 1 else z3.IntVal(0)))
    if name == 'index':
        r = z3.IndexOf(t, args[0].t, z3.IntVal(0))
        if not ex.spec and ex.branch(r < 0, exceptional=True): ex.raise_exc('ValueError')
        return vint(r)
    if name == 'join':
        a = args[0]
        if isinstance(a, E.IterV): a = ex.materialize(a)
        if isinstance(a.ty, TTuple):
            if not a.t: return vstr('')
            r = a.t[0].t
            for x in a.t[1:]: r = z3.Concat(r, t, x.t)
            return V(TStr, r)
        return V(TStr, ex.vf.str_join(ex, t, a))
    if name == 'encode' and 'utf8' in ex.w.ufuncs:      # the sidecar distinguishes bytes from characters: an uninterpreted encoding function
        return call_spec(ex, 'utf8', [s], {}, None)
    if name == 'encode' and not args:
        ex.vf.note_assumption('str.encode() modelled as the identity on code points (exact for ASCII text)')
        return V(TBytes, t)
    if name in ('lower', 'upper', 'strip', 'lstrip', 'rstrip', 'title', 'casefold', 'format', 'encode', 'decode', 'isalnum', 'isdigit', 'isdecimal', 'split', 'rsplit', 'partition', 'rpartition', 'zfill', 'isidentifier', 'isascii', 'isprintable', 'hex'):
        return ex.vf.str_lib(ex, s, name, args, kwargs)
    raise Unsupported('str.%s' % name)

def str_replace_all(ex, t, a, b):
    a_s = z3.simplify(a)
    f = z3.Function('str.replace_all', z3.StringSort(), z3.StringSort(), z3.StringSort(), z3.StringSort())
    # use z3's native replace_all
    return z3.SeqRef(z3.Z3_mk_seq_replace_all(t.ctx_ref(), t.as_ast(), a.as_ast(), b.as_ast()), t.ctx)

def _seq_method(ex, bm, recv, name, args, kwargs):
    if isinstance(recv.ty, TTuple):
        if name in ('index', 'count'):
            recv = coerce(recv, TSeq(T._join_all(recv.ty.items)))
        else: raise Unsupported('tuple.%s' % name)
    ety = recv.ty.elem; ln, arr = recv.t
    if name == 'append':
        a0 = args[0]
        if isinstance(a0.ty, TOpt) and not isinstance(ety, TOpt) and not ex.feasible(a0.t[0]):
            args = [a0.t[1]] + list(args[1:])        # provably not None on this path: keep the element type
        ety2 = join_ty(ety, args[0].ty)
        if ety2 != ety:
            recv = coerce(recv, TSeq(ety2)); ety = ety2; ln, arr = recv.t
        x = coerce(args[0], ety)
        ex.assign(bm.recv_node, V(recv.ty, (ln + 1, z3.Store(arr, ln, pack(x))))); return NONE
    if name == 'extend':
        other = args[0] if isinstance(args[0], V) else ex.materialize(args[0])
        if isinstance(other.ty, TOpt): other = ex.co(other, other.ty.inner)      # extending with None raises TypeError
        ex.assign(bm.recv_node, ex.seq_concat(recv, other)); return NONE
    if name == 'pop' and args and z3.is_int_value(z3.simplify(coerce(args[0], TInt).t)) and z3.simplify(coerce(args[0], TInt).t).as_long() == 0:
        return _seq_method(ex, bm, recv, 'popleft', [], {})      # list.pop(0)
    if name == 'pop':
        if args: raise Unsupported('list.pop(i)')
        if ex.branch(ln == 0, exceptional=True): ex.raise_exc('IndexError')
        ex.assign(bm.recv_node, V(recv.ty, (ln - 1, arr))); return seq_get(recv, ln - 1)
    if name == 'copy': return recv
    if name == 'index':
        x = args[0]; i = fresh('qi', z3.IntSort())
        has = ex.contains(recv, x)
        if ex.branch(z3.Not(has), exceptional=True): ex.raise_exc('ValueError')
        r = fresh('idx', z3.IntSort())
        ex.assume(z3.And(r >= 0, r < ln, veq(seq_get(recv, r), x)))
        ex.assume(z3.ForAll([i], z3.Implies(z3.And(i >= 0, i < r), z3.Not(veq(seq_get(recv, i), x)))))
        return vint(r)
    if name == 'clear':
        ex.assign(bm.recv_node, V(recv.ty, (z3.IntVal(0), arr))); return NONE
    if name in ('sort', 'reverse'):      # a permutation of the same elements (the order itself is not modelled)
        ex.vf.note_assumption('list.%s() modelled as an unspecified rearrangement of the same elements' % name)
        facts = []; nv = T.havoc(recv.ty, 'sorted', facts)
        for f in facts: ex.assume(f)
        i = fresh('qi', z3.IntSort()); j = fresh('qj', z3.IntSort())
        ex.assume(nv.t[0] == ln)
        ex.assume(z3.ForAll([i], z3.Implies(z3.And(i >= 0, i < ln), z3.Exists([j], z3.And(j >= 0, j < ln, nv.t[1][i] == arr[j])))))
        ex.assign(bm.recv_node, nv); return NONE
    if name == 'popleft':        # collections.deque
        if ex.branch(ln == 0, exceptional=True): ex.raise_exc('IndexError')
        i = fresh('ci', z3.IntSort())
        ex.assign(bm.recv_node, V(recv.ty, (ln - 1, z3.Lambda([i], arr[i + 1])))); return seq_get(recv, 0)
    if name == 'appendleft':
        x = coerce(args[0], ety); i = fresh('ci', z3.IntSort())
        ex.assign(bm.recv_node, V(recv.ty, (ln + 1, z3.Lambda([i], z3.If(i == 0, pack(x), arr[i - 1]))))); return NONE
    if name == 'remove':
        x = args[0]; i = fresh('qi', z3.IntSort())
        has = ex.contains(recv, x)
        if ex.branch(z3.Not(has), exceptional=True): ex.raise_exc('ValueError')
        r = fresh('idx', z3.IntSort())
        ex.assume(z3.And(r >= 0, r < ln, veq(seq_get(recv, r), x)))
        ex.assume(z3.ForAll([i], z3.Implies(z3.And(i >= 0, i < r), z3.Not(veq(seq_get(recv, i), x)))))
        j = fresh('ci', z3.IntSort())
        ex.assign(bm.recv_node, V(recv.ty, (ln - 1, z3.Lambda([j], z3.If(j < r, arr[j], arr[j + 1]))))); return NONE
    raise Unsupported('list.%s' % name)

def _set_method(ex, bm, recv, name, args, kwargs):
    ety = recv.ty.elem; mem, card = recv.t
    if name == 'add':
        x = pack(coerce(args[0], ety))
        m2, c2, fct = T.set_update(mem, card, x, True); ex.assume(fct)
        ex.assign(bm.recv_node, V(recv.ty, (m2, c2))); return NONE
    if name in ('remove', 'discard'):
        x = pack(coerce(args[0], ety))
        if name == 'remove' and ex.branch(z3.Not(z3.Select(mem, x)), exceptional=True): ex.raise_exc('KeyError')
        m2, c2, fct = T.set_update(mem, card, x, False); ex.assume(fct)
        ex.assign(bm.recv_node, V(recv.ty, (m2, c2))); return NONE
    if name == 'update' and len(args) == 1:
        a = args[0]
        if isinstance(a, E.IterV): a = ex.materialize(a)
        a = ex.val(a)
        items = None
        if isinstance(a.ty, TTuple): items = list(a.t)
        elif isinstance(a.ty, TSeq) and z3.is_int_value(z3.simplify(a.t[0])): items = [seq_get(a, z3.IntVal(i_)) for i_ in range(z3.simplify(a.t[0]).as_long())]
        if items is not None:      # a fixed number of elements: one `add` each
            m2, c2 = mem, card
            for it_ in items:
                m2, c2, fct = T.set_update(m2, c2, pack(coerce(it_, ety)), True); ex.assume(fct)
            ex.assign(bm.recv_node, V(recv.ty, (m2, c2))); return NONE
        if isinstance(a.ty, TSet):
            b = coerce(a, recv.ty); x_ = z3.Const('su!', mem.sort().domain())
            m2 = z3.Lambda([x_], z3.Or(z3.Select(mem, x_), z3.Select(b.t[0], x_))); c2 = fresh('card', z3.IntSort())
            ex.assume(z3.And(c2 >= card, c2 >= b.t[1], c2 <= card + b.t[1]))
            ex.assign(bm.recv_node, V(recv.ty, (m2, c2))); return NONE
        raise Unsupported('set.update with %r' % a.ty)
    if name == 'copy': return recv
    if name == 'clear':
        e0 = coerce(V(TTuple([]), []), recv.ty)
        for fct in T.type_facts(e0): ex.assume(fct)
        ex.assign(bm.recv_node, e0); return NONE
    if name in ('union', 'intersection', 'difference'):
        other = args[0]
        if not isinstance(other.ty, TSet): other = _set_of_seq(ex, coerce(other, TSeq(ety)))
        return ex.set_op({'union': 'BitOr', 'intersection': 'BitAnd', 'difference': 'Sub'}[name], recv, other)
    if name == 'issubset': return vbool(z3.IsSubset(mem, args[0].t[0]))
    raise Unsupported('set.%s' % name)

def omap_pop(ex, recv, kt):
    n, ks, pos, val = recv.t
    p = z3.Select(pos, kt)
    i = fresh('pi', z3.IntSort()); x = fresh('px', sort_of(recv.ty.k))
    ks2 = z3.Lambda([i], z3.If(i < p, z3.Select(ks, i), z3.Select(ks, i + 1)))
    pos2 = z3.Lambda([x], z3.If(x == kt, z3.IntVal(-1), z3.If(z3.Select(pos, x) > p, z3.Select(pos, x) - 1, z3.Select(pos, x))))
    return V(recv.ty, (n - 1, ks2, pos2, val))

def _omap_method(ex, bm, recv, name, args, kwargs):
    ty = recv.ty; n, ks, pos, val = recv.t
    if name in ('values', 'keys', 'items'):
        if name == 'keys': return E.IterV(n, lambda i: unpack(z3.Select(ks, i), ty.k), ty.k)
        if name == 'values': return E.IterV(n, lambda i: unpack(z3.Select(val, z3.Select(ks, i)), ty.v), ty.v)
        def item(i):
            k = unpack(z3.Select(ks, i), ty.k); return V(TTuple([ty.k, ty.v]), [k, unpack(z3.Select(val, pack(k)), ty.v)])
        return E.IterV(n, item)
    if name == 'get':
        kt = pack(ex.co(args[0], ty.k)); dflt = args[1] if len(args) > 1 else NONE
        return vite(T.omap_member(recv, kt), unpack(z3.Select(val, kt), ty.v), ex.val(dflt))
    if name == 'pop':
        kt = pack(ex.co(args[0], ty.k)); mem = T.omap_member(recv, kt)
        if len(args) == 1:
            if ex.branch(z3.Not(mem), exceptional=True): ex.raise_exc('KeyError')
            r = unpack(z3.Select(val, kt), ty.v)
            ex.assign(bm.recv_node, omap_pop(ex, recv, kt)); return r
        r = vite(mem, unpack(z3.Select(val, kt), ty.v), args[1])
        if ex.branch(mem): ex.assign(bm.recv_node, omap_pop(ex, recv, kt))
        return r
    if name == 'copy': return recv
    if name == 'clear':
        ex.assign(bm.recv_node, coerce(V(TTuple([]), []), ty)); return NONE
    raise Unsupported('dict.%s on ordered map' % name)

def setitem(ex, recv, k, v):
    ty = recv.ty
    if isinstance(ty, TFun):
        return V(ty, z3.Store(recv.t, pack(ex.co(k, ty.k)), pack(ex.co(v, ty.v))))
    if isinstance(ty, TOMap):
        kt = pack(ex.co(k, ty.k)); n, ks, pos, val = recv.t
        mem = T.omap_member(recv, kt)
        return V(ty, (n + z3.If(mem, 0, 1), z3.If(mem, ks, z3.Store(ks, n, kt)), z3.If(mem, pos, z3.Store(pos, kt, n)), z3.Store(val, kt, pack(ex.co(v, ty.v)))))
    if isinstance(ty, TMap):
        kt = pack(ex.co(k, ty.k)); dom, val, card = recv.t
        d2, c2, fct = T.set_update(dom, card, kt, True); ex.assume(fct)
        return V(ty, (d2, z3.Store(val, kt, pack(ex.co(v, ty.v))), c2))
    if isinstance(ty, TSeq):
        i = coerce(k, TInt).t; ln = recv.t[0]
        if ex.branch(z3.Or(i >= ln, i < -ln), exceptional=True): ex.raise_exc('IndexError')
        return V(ty, (ln, z3.Store(recv.t[1], z3.If(i < 0, i + ln, i), pack(coerce(v, ty.elem)))))
    raise Unsupported('item store on %r' % ty)

def map_del(ex, recv, k, strict):
    ty = recv.ty
    if isinstance(ty, TOMap):
        kt = pack(ex.co(k, ty.k))
        if strict and ex.branch(z3.Not(T.omap_member(recv, kt)), exceptional=True): ex.raise_exc('KeyError')
        return omap_pop(ex, recv, kt)
    if not isinstance(ty, TMap): raise Unsupported('del on %r' % ty)
    kt = pack(ex.co(k, ty.k)); dom, val, card = recv.t
    if strict and ex.branch(z3.Not(z3.Select(dom, kt)), exceptional=True): ex.raise_exc('KeyError')
    d2, c2, fct = T.set_update(dom, card, kt, False); ex.assume(fct)
    return V(ty, (d2, val, c2))

def _map_method(ex, bm, recv, name, args, kwargs):
    ty = recv.ty; dom, val, card = recv.t
    if name == 'move_to_end':        # OrderedDict modelled as an unordered map: only the KeyError is observable
        kt = pack(coerce(args[0], ty.k))
        if ex.branch(z3.Not(z3.Select(dom, kt)), exceptional=True): ex.raise_exc('KeyError')
        return NONE
    if name == 'popitem':            # some (key, value) pair -- which one is not modelled
        if ex.branch(card == 0, exceptional=True): ex.raise_exc('KeyError')
        k = T.havoc(ty.k, 'popkey', []); kt = pack(k)
        ex.assume(z3.Select(dom, kt))
        r = V(TTuple([ty.k, ty.v]), [k, unpack(z3.Select(val, kt), ty.v)])
        ex.assign(bm.recv_node, map_del(ex, recv, k, strict=False)); return r
    if name == 'get':
        dflt = args[1] if len(args) > 1 else kwargs.get('default', NONE)
        a0 = ex.val(args[0])
        if isinstance(a0.ty, TOpt) and not isinstance(ty.k, TOpt):      # d.get(None) is the default (None is not a key of this map type)
            kt = pack(coerce(a0.t[1], ty.k))
            return vite(z3.And(z3.Not(a0.t[0]), z3.Select(dom, kt)), unpack(z3.Select(val, kt), ty.v), ex.val(dflt))
        kt = pack(coerce(a0, ty.k))
        return vite(z3.Select(dom, kt), unpack(z3.Select(val, kt), ty.v), ex.val(dflt))
    if name == 'pop':
        kt = pack(ex.co(args[0], ty.k))
        if len(args) == 1:
            if ex.branch(z3.Not(z3.Select(dom, kt)), exceptional=True): ex.raise_exc('KeyError')
            r = unpack(z3.Select(val, kt), ty.v)
        else:
            r = vite(z3.Select(dom, kt), unpack(z3.Select(val, kt), ty.v), args[1])
        ex.assign(bm.recv_node, map_del(ex, recv, args[0], strict=False)); return r
    if name == 'setdefault':
        kt = pack(coerce(args[0], ty.k))
        r = vite(z3.Select(dom, kt), unpack(z3.Select(val, kt), ty.v), coerce(args[1], ty.v))
        d2, c2, fct = T.set_update(dom, card, kt, True); ex.assume(fct)
        nv = V(ty, (d2, z3.Store(val, kt, pack(coerce(r, ty.v))), c2))
        ex.assign(bm.recv_node, nv); return r
    if name in ('copy', 'finish', 'mutate'): return recv
    if name == 'set' :   # immutables.Map.set -> new map
        return setitem(ex, recv, args[0], args[1])
    if name == 'delete':
        return map_del(ex, recv, args[0], strict=True)
    if name in ('keys', 'values', 'items'):
        return E.MapIterV(recv, name)
    raise Unsupported('dict.%s' % name)

# ------------------------------------------------------------------ spec functions
def call_spec(ex, name, args, kwargs, node):
    w = ex.w
    if name in w.defs:
        params, expr = w.defs[name]
        env = dict(ex.st.env)
        if len(params) != len(args): raise Unsupported('spec macro %s arity' % name)
        env.update(dict(zip(params, args)))
        tree = ex.vf.parse_spec(expr)
        saved = ex.st.env; ex.st.env = env
        ex.spec += 1
        try: return ex.eval(tree)
        finally: ex.spec -= 1; ex.st.env = saved
    if name in w.ufuncs:
        atys, rty = w.ufuncs[name]
        f = z3.Function(name, *[sort_of(w.ty(a)) for a in atys], sort_of(w.ty(rty)))
        avals = [ex.co(a, w.ty(t)) for a, t in zip(args, atys)]
        res = unpack(f(*[pack(a) for a in avals]), w.ty(rty))
        facts = w.ufunc_facts.get(name)
        if facts and not getattr(ex, '_in_ufunc_fact', False):
            ex._in_ufunc_fact = True
            try:
                env = dict(ex.st.env); env.update({'a%d' % i: a for i, a in enumerate(avals)})
                for fct in facts: ex.assume(ex.eval_spec(fct, env=env))
            finally: ex._in_ufunc_fact = False
        return res
    _prim = {'int': TInt, 'bool': TBool, 'str': TStr}
    a = [E.TypeObj(_prim[x.name]) if isinstance(x, E.BuiltinRef) and x.name in _prim else x if isinstance(x, (E.PyObj,)) else ex.val(x) for x in args]
    if name == 'implies': return vbool(z3.Implies(truth(a[0]), truth(a[1])))
    if name == 'iff': return vbool(truth(a[0]) == truth(a[1]))
    if name == 'ite': return vite(truth(a[0]), a[1], a[2])
    if name in ('forall', 'exists'):
        return _quant(ex, name, a)
    if name == 'seq_tab':
        # seq_tab(n, lambda k: e): the sequence of length n whose k-th element is e (a ghost sequence given by a table)
        n_, lam = a
        if not isinstance(lam, E.LambdaV): raise Unsupported('seq_tab needs a lambda')
        kc = z3.Const('%s!t%d' % (lam.node.args.args[0].arg, ex.qdepth), z3.IntSort())
        saved = ex.st.env
        ex.st.env = dict(lam.env); ex.st.env.update(saved); ex.st.env[lam.node.args.args[0].arg] = vint(kc)
        ex.qdepth += 1
        try: el = ex.val(ex.eval(lam.node.body))
        finally: ex.st.env = saved; ex.qdepth -= 1
        return V(TSeq(el.ty), (coerce(n_, TInt).t, z3.Lambda([kc], pack(el))))
    if name == 'allocated':      # the object exists (was constructed earlier): a freshly constructed object differs from every allocated one
        a0 = ex.val(args[0])
        if ex.st.alloc is None: ex.st.alloc = ex.vf.alloc0()
        return vbool(z3.Select(ex.st.alloc, a0.t))
    if name == 'is_none':
        v = a[0]
        return vbool(v.t[0] if isinstance(v.ty, TOpt) else z3.BoolVal(v.ty is TNone))
    if name == 'some': return a[0].t[1] if isinstance(a[0].ty, TOpt) else a[0]
    if name == 'subset': return vbool(z3.IsSubset(a[0].t[0], a[1].t[0]))
    if name == 'card': return vint(a[0].t[1] if isinstance(a[0].ty, TSet) else a[0].t[2])
    if name == 'set_add':
        s, x = a; xt = pack(coerce(x, s.ty.elem))
        m2, c2, fct = T.set_update(s.t[0], s.t[1], xt, True); ex.assume(fct)
        return V(s.ty, (m2, c2))
    if name == 'set_remove':
        s, x = a; xt = pack(coerce(x, s.ty.elem))
        m2, c2, fct = T.set_update(s.t[0], s.t[1], xt, False); ex.assume(fct)
        return V(s.ty, (m2, c2))
    if name == 'seq_take':
        s, n = a; return V(s.ty, (coerce(n, TInt).t, s.t[1]))
    if name == 'distinct':
        s = a[0]; i = fresh('qi', z3.IntSort()); j = fresh('qj', z3.IntSort())
        return vbool(z3.ForAll([i, j], z3.Implies(z3.And(i >= 0, i < j, j < s.t[0]), s.t[1][i] != s.t[1][j])))
    if name == 'is_prefix':
        p, s = a; i = fresh('qi', z3.IntSort())
        return vbool(z3.And(p.t[0] <= s.t[0], z3.ForAll([i], z3.Implies(z3.And(i >= 0, i < p.t[0]), p.t[1][i] == s.t[1][i]))))
    if name == 'str_len': return vint(z3.Length(a[0].t))
    if name == 'str_at': return V(TStr, z3.SubString(a[0].t, coerce(a[1], TInt).t, 1))
    if name == 'str_sub': return V(TStr, z3.SubString(a[0].t, coerce(a[1], TInt).t, coerce(a[2], TInt).t))
    if name == 'str_contains': return vbool(ex.contains(a[0], a[1]))
    if name == 'str_indexof': return vint(z3.IndexOf(a[0].t, a[1].t, coerce(a[2], TInt).t if len(a) > 2 else z3.IntVal(0)))
    if name == 'str_prefixof': return vbool(z3.PrefixOf(a[0].t, a[1].t))
    if name == 'str_suffixof':
        a0 = z3.simplify(a[0].t)
        if z3.is_string_value(a0) and not z3.is_string_value(z3.simplify(a[1].t)):
            return vbool(z3.InRe(a[1].t, z3.Concat(z3.Star(z3.AllChar(z3.ReSort(z3.StringSort()))), z3.Re(a0))))
        return vbool(z3.SuffixOf(a[0].t, a[1].t))
    if name == 'int_to_str': return ex.int_to_str(coerce(a[0], TInt))
    if name == 'str_to_int': return vint(z3.StrToInt(a[0].t))
    if name == 'domain':
        m = a[0]; return V(TSet(m.ty.k), (m.t[0], m.t[2]))
    if name == 'map_get':
        m, k = a; return unpack(z3.Select(m.t[1], pack(coerce(k, m.ty.k))), m.ty.v)
    if name == 'seq_get':
        return seq_get(a[0], coerce(a[1], TInt).t)
    if name == 'in_re_pat':
        # in_re_pat(s, "<python regex>"): s (entirely) matches the pattern -- ASCII categories, translated from CPython's parse tree
        from . import strlib
        pat = ex.const_py(a[1])
        if pat is None: raise Unsupported('in_re_pat needs a constant pattern')
        notes = set(); tree = strlib._sp.parse(pat[0], 0)
        return vbool(z3.InRe(a[0].t, strlib.to_z3re(list(tree), notes)))
    if name == 'has_flag': return vbool((a[0].t & a[1].t) == a[1].t)
    if name == 'fun_set':
        f, k, v = a
        return V(f.ty, z3.Store(f.t, pack(ex.co(k, f.ty.k)), pack(ex.co(v, f.ty.v))))
    # ---- ordered maps
    if name == 'okey': return unpack(z3.Select(a[0].t[1], coerce(a[1], TInt).t), a[0].ty.k)
    if name == 'opos': return vint(z3.Select(a[0].t[2], pack(ex.co(a[1], a[0].ty.k))))
    if name == 'oval': return unpack(z3.Select(a[0].t[3], pack(ex.co(a[1], a[0].ty.k))), a[0].ty.v)
    if name == 'osame': return vbool(z3.And(*[x == y for x, y in zip(a[0].t, a[1].t)]))
    if name == 'oprefix':
        m1, m0, n = a; n = coerce(n, TInt).t; j = fresh('qj', z3.IntSort())
        return vbool(z3.ForAll([j], z3.Implies(z3.And(j >= 0, j < n), z3.And(m1.t[1][j] == m0.t[1][j], m1.t[3][m0.t[1][j]] == m0.t[3][m0.t[1][j]]))))
    # ---- quantifier-free frame conditions (array store form)
    if name == 'map_same_except':
        m1, m0, k = a; kt = pack(ex.co(k, m1.ty.k))
        return vbool(z3.And(m1.t[0] == z3.Store(m0.t[0], kt, z3.Select(m1.t[0], kt)), m1.t[1] == z3.Store(m0.t[1], kt, z3.Select(m1.t[1], kt))))
    if name == 'map_same':
        m1, m0 = a
        return vbool(z3.And(m1.t[0] == m0.t[0], m1.t[1] == m0.t[1], m1.t[2] == m0.t[2]))
    if name in ('heap_same', 'heap_same_except'):
        key = z3.simplify(a[0].t).as_string()
        cls, fld = key.split('.'); fty = w.ty(w.classes[cls][fld])
        if ex.old is None: raise Unsupported('heap_same without a pre-state')
        cur = ex.heap_field(cls, fld, fty)
        if key not in ex.old.heap: ex.old.heap[key] = ex.vf.heap0(key, fty)
        old = ex.old.heap[key]
        if name == 'heap_same': return vbool(cur == old)
        return vbool(cur == z3.Store(old, a[1].t, z3.Select(cur, a[1].t)))
    if name == 'emptyset':
        ty = a[0].ty if isinstance(a[0], E.TypeObj) else None
        if ty is None: raise Unsupported('emptyset(Type)')
        e0 = coerce(V(TTuple([]), []), TSet(ty))
        for fct in T.type_facts(e0): ex.assume(fct)
        return e0
    raise Unsupported('spec function %s' % name)

def _quant(ex, name, a):
    # forall(lo, hi, lambda i: P)   |  forall(T, lambda x: P)  | forall(seq_or_set, lambda x: P)
    lam = a[-1]
    if not isinstance(lam, E.LambdaV): raise Unsupported('%s needs a lambda' % name)
    params = [p.arg for p in lam.node.args.args]
    depth = ex.qdepth
    pats = []
    qfacts = []
    def generalise(consts):
        # side facts learnt while the body was evaluated (sign facts `length / cardinality >= 0` of values read from the heap or from a map at an index
        # that depends on the bound variable) were assumed for the bound variable as if it were a constant; they hold at EVERY location, and the instances
        # at other locations are needed as well (without them a solver may pick a negative length for the list read at another index and report a bogus
        # counter-model).  They are generalised over the READ LOCATION (`forall r: len(heap[r]) >= 0`), not over the bound variable: that form has an
        # obvious trigger, is the same for every clause reading the same array, and does not drag index arithmetic into the quantifier.
        if os.environ.get('PYVC_NO_GENERALISE'): return
        for f_ in qfacts:
            if not (z3.is_app(f_) and f_.decl().kind() == z3.Z3_OP_GE and z3.is_int_value(f_.arg(1)) and f_.arg(1).as_long() == 0): continue
            if not any(_occurs(c_, f_) for c_ in consts): continue
            g_ = _generalise_over_locations(f_, consts)
            if g_ is not None: ex.assume(g_)
    def body(bind):
        saved = ex.st.env
        ex.st.env = dict(lam.env); ex.st.env.update(saved); ex.st.env.update(bind)
        ex.qdepth += 1
        saved_log = ex.facts_log; ex.facts_log = []
        try:
            return _body(bind)
        finally:
            qfacts.extend(ex.facts_log)
            if saved_log is not None: saved_log.extend(ex.facts_log)
            ex.facts_log = saved_log
            ex.st.env = saved; ex.qdepth -= 1
    def _body(bind):
        if True:
            bnode = lam.node.body
            if isinstance(bnode, ast.Call) and isinstance(bnode.func, ast.Name) and bnode.func.id == 'guarded' and len(bnode.args) == 2:
                # guarded(g, B):  g ==> B  with g as the only instantiation pattern.  g is an uninterpreted guard token: a proof that is
                # parametric in g holds in particular for g == True, so the guarded and the plain statement are interchangeable
                g = truth(ex.val(ex.eval(bnode.args[0]))); b = truth(ex.val(ex.eval(bnode.args[1])))
                pats.append(g)
                return z3.Implies(g, b) if name == 'forall' else z3.And(g, b)
            if isinstance(bnode, ast.Call) and isinstance(bnode.func, ast.Name) and bnode.func.id == 'triggered' and len(bnode.args) == 2:
                # triggered(term, B): B with `term` as the only instantiation pattern (term must mention every bound variable)
                pt = ex.val(ex.eval(bnode.args[0])); b = truth(ex.val(ex.eval(bnode.args[1])))
                pats.append(pt.t if isinstance(pt, V) and not isinstance(pt.t, (list, tuple, dict)) else truth(pt))
                return b
            return truth(ex.val(ex.eval(bnode)))
    # bound variables get canonical names (parameter name + nesting depth): evaluating the same clause over the same state
    # yields the identical term, which prove() recognises among the hypotheses
    def bconst(pname, sort): return z3.Const('%s!q%d' % (pname, depth), sort)
    if len(a) == 3 and not isinstance(a[0], E.TypeObj):
        lo, hi = coerce(a[0], TInt).t, coerce(a[1], TInt).t
        i = bconst(params[0], z3.IntSort())
        b = body({params[0]: vint(i)}); rng = z3.And(i >= lo, i < hi); generalise([i])
        return vbool(z3.ForAll([i], z3.Implies(rng, b)) if name == 'forall' else z3.Exists([i], z3.And(rng, b)))
    dom = a[0]
    if isinstance(dom, E.TypeObj):
        tys = [x.ty for x in a[:-1]]
        facts = []
        xs = []; consts = []
        for t, p in zip(tys, params):
            if isinstance(t, (T.TRef, T.TAny, T.TEnum)) or t in (TInt, TStr, TBool):
                cst = bconst(p, T.sort_of(t)); xs.append(V(t, cst)); consts.append(cst)
            elif isinstance(t, (T.TMap, T.TSet, T.TSeq, T.TOpt)):
                cst = bconst(p, T.sort_of(t)); x_ = unpack(cst, t); xs.append(x_); consts.append(cst)      # one bound variable of the packed sort
                facts.extend(T.type_facts(x_))
            else:
                x_ = havoc(t, p, facts); xs.append(x_); consts.extend(_consts_of([x_]))
        b = body(dict(zip(params, xs))); generalise(consts)
        if facts: b = z3.Implies(z3.And(*facts), b) if name == 'forall' else z3.And(*(facts + [b]))
        if pats and name == 'forall': return vbool(z3.ForAll(consts, b, patterns=[pats[-1]]))
        return vbool(z3.ForAll(consts, b) if name == 'forall' else z3.Exists(consts, b))
    if isinstance(dom.ty, TSeq):
        i = fresh('qi', z3.IntSort())
        b = body({params[0]: seq_get(dom, i)}); rng = z3.And(i >= 0, i < dom.t[0]); generalise([i])
        return vbool(z3.ForAll([i], z3.Implies(rng, b)) if name == 'forall' else z3.Exists([i], z3.And(rng, b)))
    if isinstance(dom.ty, TSet):
        facts = []; x = havoc(dom.ty.elem, params[0], facts)
        b = body({params[0]: x}); rng = z3.Select(dom.t[0], pack(x))
        consts = _consts_of([x]); generalise(consts)
        return vbool(z3.ForAll(consts, z3.Implies(rng, b)) if name == 'forall' else z3.Exists(consts, z3.And(rng, b)))
    raise Unsupported('quantifier domain %r' % dom.ty)

def _generalise_over_locations(f, consts):
    """f[select(a, t(bound))] -> forall x: f[select(a, x)]  (None if a bound variable occurs anywhere else)"""
    fresh_vars = {}
    def has_bound(t): return any(_occurs(c, t) for c in consts)
    def sub(t):
        if not z3.is_app(t) or t.num_args() == 0: return t
        if t.decl().kind() == z3.Z3_OP_SELECT and t.num_args() == 2:
            a, idx = t.arg(0), t.arg(1)
            a2 = sub(a)
            if has_bound(idx):
                key = idx.get_id()
                if key not in fresh_vars: fresh_vars[key] = z3.Const('loc!g%d' % len(fresh_vars), idx.sort())
                return z3.Select(a2, fresh_vars[key])
            return z3.Select(a2, sub(idx))
        return t.decl()(*[sub(t.arg(i)) for i in range(t.num_args())])
    try: g = sub(f)
    except Exception: return None
    if not fresh_vars or has_bound(g): return None
    return z3.ForAll(list(fresh_vars.values()), g)

def _occurs(c, f):
    """does the constant c occur in formula f"""
    seen = set(); stack = [f]; cid = c.get_id()
    while stack:
        t = stack.pop()
        if t.get_id() in seen: continue
        seen.add(t.get_id())
        if t.get_id() == cid: return True
        if z3.is_quantifier(t): stack.append(t.body())
        else: stack.extend(t.children())
    return False

def _consts_of(vals):
    out = []
    def walk(v):
        ty = v.ty
        if ty is TNone: return
        if isinstance(ty, (TPrim, TEnum, TAny, TRef)): out.append(v.t)
        elif isinstance(ty, TOpt): out.append(v.t[0]); walk(v.t[1])
        elif isinstance(ty, TTuple): [walk(x) for x in v.t]
        elif isinstance(ty, TRec): [walk(x) for x in v.t.values()]
        else: out.extend(v.t)
    for v in vals: walk(v)
    return out
