"""Verifier driver: for one contract, explore all paths of the real function body, collect and
discharge obligations, and report."""
import ast, time, os, json, traceback
import z3
from . import repo
from .vtypes import *
from . import engine as E

class Verifier:
    def __init__(self, world, tier='quick', outdir=None):
        self.w = world; self.tier = tier
        self.timeout_ms = int(os.environ.get('PYVC_TIMEOUT_MS', 10000 if tier == 'quick' else 60000))
        self.unroll_bound = 3
        self.outdir = outdir
        self.modconst = {}; self.exc_parent = {}
        self._spec_cache = {}
        self.reset_fn()
        from . import strlib
        strlib.install(self)

    def reset_fn(self):
        self.obls = {}; self.assumptions = set(); self.inlined = set(); self.bounded = []
        self.paths = 0; self.path_kinds = {}; self.ghosts_fired = set(); self.full_checks = 0; self.feas_cache = {}
        self._heap0 = {}; self._alloc0 = None
        self.cur = None; self.infeasible = 0

    # ---- services used by Exec
    def note_assumption(self, s): self.assumptions.add(s)
    def note_inlined(self, k): self.inlined.add(k)
    def note_ghost(self, c, stmt): self.ghosts_fired.add((c.key, stmt))
    def note_bounded(self, s):
        if s not in self.bounded: self.bounded.append(s)
    def parse_spec(self, expr):
        if expr not in self._spec_cache:
            self._spec_cache[expr] = ast.parse(expr.strip(), mode='eval').body
        return self._spec_cache[expr]
    def heap0(self, key, fty):
        if key not in self._heap0:
            cls = key.split('.')[0]
            self._heap0[key] = z3.Const('heap0_' + key.replace('.', '_'), z3.ArraySort(sort_of(TRef(cls)), sort_of(fty)))
        return self._heap0[key]
    def alloc0(self):
        if self._alloc0 is None:
            self._alloc0 = z3.Const('alloc0', z3.ArraySort(sort_of(TRef('_')), z3.BoolSort()))
        return self._alloc0
    def loop_ordinal(self, fn, st):
        k = 0
        for n in _walk_own(fn):
            if isinstance(n, (ast.For, ast.While, ast.AsyncFor)):
                if n is st: return k
                k += 1
        raise KeyError('loop not found')
    def fingerprint(self, st):
        if isinstance(st, ast.For): return 'for %s in %s' % (ast.unparse(st.target), ast.unparse(st.iter))
        return 'while %s' % ast.unparse(st.test)
    def assigned_names(self, st):
        names = set()
        for n in ast.walk(st):
            if isinstance(n, (ast.Assign, ast.AugAssign, ast.AnnAssign, ast.For, ast.NamedExpr, ast.withitem)):
                tg = n.targets if isinstance(n, ast.Assign) else [getattr(n, 'target', None) or getattr(n, 'optional_vars', None)]
                def tnames(t):
                    if isinstance(t, ast.Name): names.add(t.id)
                    elif isinstance(t, (ast.Tuple, ast.List)):
                        for e in t.elts: tnames(e)
                    elif isinstance(t, ast.Starred): tnames(t.value)
                    elif isinstance(t, ast.Subscript): tnames(t.value)     # x[k] = v updates the (by-value) collection in x
                    # obj.attr = v is a heap write (assigned_fields), the name obj itself is not modified
                for t in tg:
                    if t is not None: tnames(t)
            elif isinstance(n, ast.Call) and isinstance(n.func, ast.Attribute) and n.func.attr in E.MUTATING:
                b = n.func.value
                while isinstance(b, ast.Subscript): b = b.value
                # x.append(..) / x[k].append(..) mutate the local x; obj.field.append(..) mutates a heap field (see assigned_fields)
                if isinstance(b, ast.Name): names.add(b.id)
            elif isinstance(n, ast.ExceptHandler) and n.name: names.add(n.name)
            elif isinstance(n, ast.Delete):
                for t in n.targets:
                    b = t
                    while isinstance(b, (ast.Attribute, ast.Subscript)): b = b.value
                    if isinstance(b, ast.Name): names.add(b.id)
            elif isinstance(n, ast.Call):
                # contract calls that modify state variables / in-place arguments
                fname = n.func.id if isinstance(n.func, ast.Name) else (n.func.attr if isinstance(n.func, ast.Attribute) else None)
                for c in self.w.contracts.values():
                    if fname and c.qual.split('.')[-1] == fname:
                        for m in c.modifies:
                            if m in c.state: names.add(m)
        return names
    def assigned_fields(self, ex, st):
        out = set()
        for n in ast.walk(st):
            if isinstance(n, (ast.Assign, ast.AugAssign, ast.AnnAssign)):
                tg = n.targets if isinstance(n, ast.Assign) else [n.target]
                for t in tg:
                    for m in ast.walk(t):
                        if isinstance(m, ast.Attribute) and isinstance(m.ctx, ast.Store):
                            for cls, fields in self.w.classes.items():
                                if m.attr in fields: out.add('%s.%s' % (cls, m.attr))
                        if isinstance(m, ast.Subscript) and isinstance(m.ctx, ast.Store):
                            for cls in getattr(self.w, 'dict_classes', {}): out.add('%s.m' % cls)      # d[k] = v on a dict held by reference
            elif isinstance(n, ast.Call):
                fname = n.func.id if isinstance(n.func, ast.Name) else (n.func.attr if isinstance(n.func, ast.Attribute) else None)
                if isinstance(n.func, ast.Attribute) and n.func.attr in E.MUTATING and n.func.attr not in getattr(self.w, 'nonmutating', ()):
                    b = n.func.value
                    if isinstance(b, ast.Attribute):
                        for cls, fields in self.w.classes.items():
                            if b.attr in fields: out.add('%s.%s' % (cls, b.attr))
                for c in self.w.contracts.values():
                    if fname and c.qual.split('.')[-1] == fname:
                        for m in c.modifies:
                            if '.' in m: out.add(m)
        return out
    def auto_inline(self, fr):
        """one-line accessor methods (`return <expr>`) of classes declared in the sidecar are executed in place; listed in the evidence"""
        body = [st for st in fr.node.body if not (isinstance(st, ast.Expr) and isinstance(st.value, ast.Constant))]
        if len(body) != 1 or not isinstance(body[0], ast.Return) or body[0].value is None: return False
        if fr.cls is None: return False
        declared = {c for (_, c) in list(self.w.enum_src.values()) + list(self.w.rec_src.values()) + list(self.w.class_src.values())}
        return fr.cls.name in declared
    def qual_of_nested(self, frame, st):
        c = frame.get('contract')
        base = c.qual if c else frame['func'].name
        return base + '.<locals>.' + st.name
    def subclass_test(self, ex, obj, c):
        """isinstance(obj, C) for a heap object whose dynamic class is one of the classes of a declared hierarchy:
        an uninterpreted class tag + the subclass relation read from the module's class definitions"""
        rel = self.w.hierarchies.get(obj.ty.cls)
        if rel is None: raise Unsupported('isinstance on %r (no class hierarchy declared)' % obj.ty)
        names, subs = class_hierarchy(rel)
        if c.name not in names: raise Unsupported('isinstance(_, %s): class not in %s' % (c.name, rel))
        tag = z3.Function('clsid_' + obj.ty.cls, sort_of(obj.ty), z3.IntSort())(obj.t)
        ex.assume(z3.And(tag >= 0, tag < len(names)))
        return z3.Or(*[tag == names.index(d) for d in sorted(subs[c.name])])
    def str_lib(self, ex, s, name, args, kwargs):
        if name == 'format':
            self.note_assumption('str.format() result treated as an arbitrary string')
            return V(TStr, fresh('fmt', z3.StringSort()))
        raise Unsupported('str.%s (no library lemma loaded)' % name)
    def str_join(self, ex, sep, seq): raise Unsupported('str.join over a symbolic sequence')
    def str_reverse(self, ex, obj): raise Unsupported('reverse of a symbolic string (no library lemma loaded)')
    def regex_sub(self, ex, rx, args, kwargs):
        self.note_assumption('re.sub() result treated as an arbitrary string')
        return V(TStr, fresh('resub', z3.StringSort()))
    def map_iter(self, ex, recv, name): raise Unsupported('dict.%s iteration (needs ordered map model)' % name)

    # ---- obligations
    def prove(self, ex, f, oid, kind, text, tag):
        ob = self.obls.get(oid)
        if ob is None:
            ob = self.obls[oid] = E.Obligation(oid, kind, text, tag)
        ob.instances += 1
        t0 = time.time()
        fs = z3.simplify(f)
        if z3.is_true(fs) or f.get_id() in ex.assumed:      # trivially true, or literally one of the hypotheses (same term over unchanged state)
            ob.seconds += time.time() - t0; return
        already_open = ob.status in ('unknown', 'failed')      # an earlier path instance of this obligation is already undischarged: the verdict cannot
        # become "discharged" any more, only be sharpened to a counter-model -- spend a short budget and no retries / second opinions on it
        # a fresh (non-incremental) solver per obligation: z3's incremental mode is markedly weaker on quantified goals
        fs = z3.Solver(); fs.set('timeout', 5000 if already_open else self.timeout_ms)
        fs.add(ex.solver.assertions()); fs.add(z3.Not(f))
        r = fs.check()
        dt = time.time() - t0; ob.seconds += dt
        if r == z3.unsat: return
        if r == z3.sat:
            if ob.status != 'failed':
                ob.status = 'failed'
                try:
                    m = self.small_model(ex, f, fs) or fs.model()
                    ob.model = self.model_json(ex, m)
                except Exception as e:  # pragma: no cover
                    ob.model = {'error': str(e)}
                ob.where = 'line %s' % ex.cur_loc
                ob.smt2 = self.dump(ex, f, oid)
            return
        if already_open: return
        # unknown: the same query under other random seeds (quantifier instantiation order is seed dependent: a query that normally takes
        # 0.1 s occasionally runs away), short budget each
        if r == z3.unknown:
            for seed_ in (7, 23, 101):
                rs = z3.Solver(); rs.set('timeout', min(self.timeout_ms, 15000)); rs.set('random_seed', seed_)
                z3.set_param('smt.random_seed', seed_)
                try:
                    rs.add(ex.solver.assertions()); rs.add(z3.Not(f))
                    if rs.check() == z3.unsat:
                        ob.seconds += time.time() - t0 - dt; ob.backend = 'z3 (reseeded)'; return
                finally: z3.set_param('smt.random_seed', 0)
        # unknown: second opinion from cvc5 on the same query
        if ob.status == 'discharged':
            r2 = run_cvc5(fs.to_smt2(), self.timeout_ms * 2 // 1000 + 1)
            if r2 == z3.unsat:
                ob.backend = 'cvc5'; return
            # no proof and no model (quantified hypotheses).  Refutation attempt: if the goal contradicts the quantifier-free facts of this
            # path (branch conditions, assignments, ground contract clauses), it is false on every execution reaching this point.
            if not E.has_quant(f) and not z3.is_false(z3.simplify(f)):      # (a literal False goal asks for infeasibility of the path: never refutable this way)
                g = z3.Solver(); g.set('timeout', 3000); g.add(ex.ground.assertions()); g.add(f)
                if g.check() == z3.unsat and ex.ground.check() == z3.sat:
                    ob.status = 'failed'; ob.model = {'refuted': 'the clause contradicts the quantifier-free facts of the path (no complete model: quantified hypotheses)'}
                    ob.where = 'line %s' % ex.cur_loc; ob.smt2 = self.dump(ex, f, oid); return
            ob.status = 'unknown'; ob.where = 'line %s (%s)' % (ex.cur_loc, fs.reason_unknown())
            ob.smt2 = self.dump(ex, f, oid)

    def small_model(self, ex, f, fs=None):
        """prefer a counter-model with short sequences / small integers (replayable)"""
        cons = []
        def walk(v):
            ty = v.ty
            if ty is TInt: cons.append(z3.And(v.t >= -3, v.t <= 6))
            elif ty is TStr: cons.append(z3.Length(v.t) <= 6)
            elif isinstance(ty, TSeq): cons.append(v.t[0] <= 3)
            elif isinstance(ty, TOpt): walk(v.t[1])
            elif isinstance(ty, TTuple): [walk(x) for x in v.t]
            elif isinstance(ty, TRec): [walk(x) for x in v.t.values()]
        for v in self.cur_inputs.values(): walk(v)
        if not cons: return None
        for sub in (cons, [c for c in cons if 'Length' in str(c) or '<= 3' in str(c)]):
            s2 = z3.Solver(); s2.set('timeout', 3000)
            s2.add(ex.solver.assertions()); s2.add(z3.Not(f)); s2.add(*sub)
            if s2.check() == z3.sat: return s2.model()
        return None

    def retry(self, ex, f):
        s = z3.Solver(); s.set('timeout', self.timeout_ms * 2)
        s.add(ex.solver.assertions()); s.add(z3.Not(f))
        r = s.check()
        if r != z3.unknown: return r
        smt = s.to_smt2()
        return run_cvc5(smt, self.timeout_ms * 2 // 1000 + 1)

    def dump(self, ex, f, oid):
        if not self.outdir: return None
        os.makedirs(self.outdir, exist_ok=True)
        s = z3.Solver(); s.add(ex.solver.assertions()); s.add(z3.Not(f))
        p = os.path.join(self.outdir, oid.replace('/', '__').replace(':', '_').replace('<', '').replace('>', '') + '.smt2')
        try:
            with open(p, 'w') as fh: fh.write(s.to_smt2())
        except Exception: return None
        return p

    def model_json(self, ex, m):
        out = {}
        for name, v in list(self.cur_inputs.items()):
            try: out[name] = concretize(m, v)
            except Exception as e: out[name] = '<%s>' % e
        return out

    # ---- verifying one function
    def verify(self, c):
        self.reset_fn(); self.cur = c
        # fresh-name numbering restarts at a base derived from the function's key: the VCs of a function are then textually identical
        # from run to run, whichever worker process verifies it and whatever it verified before (solver behaviour is sensitive to names)
        import zlib as _zlib
        from . import vtypes as _vt
        _vt._fresh_ctr[0] = (_zlib.crc32(c.key.encode()) % 100000) * 10 ** 7
        if not hasattr(self, '_default_timeout'): self._default_timeout = self.timeout_ms
        self.timeout_ms = max(self._default_timeout, int(c.hints.get('timeout_ms', 0)))      # heavy (4-place quantifier) obligations get a larger, stated budget
        t0 = time.time()
        res = dict(function=c.key, status='ok', error=None)
        try:
            node, cls = repo.find_def(c.rel, c.qual)
            res['sha'] = repo.sha_of(c.rel, node); res['lines'] = (node.lineno, node.end_lineno)
            prefix = []
            while prefix is not None:
                ch = E.Chooser(prefix)
                self.run_path(c, node, cls, ch)
                prefix = ch.next_prefix()
                if self.paths > 20000: raise Unsupported('path explosion (>20000 paths)')
        except Unsupported as e:
            res['status'] = 'unsupported'; res['error'] = '%s (near line %s)' % (e, getattr(getattr(self, 'last_ex', None), 'cur_loc', None))
        except E.StaleContract as e:
            res['status'] = 'stale'; res['error'] = str(e)
        except Exception as e:
            res['status'] = 'crash'; res['error'] = traceback.format_exc()
        res['paths'] = self.paths; res['path_kinds'] = dict(self.path_kinds)
        res['obligations'] = [o.to_json() for o in self.obls.values()]
        res['assumptions'] = sorted(self.assumptions); res['inlined'] = sorted(self.inlined); res['bounded'] = list(self.bounded)
        res['seconds'] = round(time.time() - t0, 3)
        if res['status'] == 'ok':
            missing = [k for k in c.ghost_after if (c.key, k) not in self.ghosts_fired] + ['abstract:' + k for k in c.abstract if (c.key, 'abstract:' + k) not in self.ghosts_fired]
            if missing:
                res['status'] = 'stale'; res['error'] = 'ghost update(s) no longer attach to any statement: %s' % missing
        # vacuity: at least one path must reach a normal or declared-exceptional exit
        if res['status'] == 'ok' and not (self.path_kinds.get('normal') or self.path_kinds.get('raise')):
            res['status'] = 'vacuous'; res['error'] = 'no feasible path reaches an exit (contradictory requires?)'
        return res

    def run_path(self, c, node, cls, ch):
        w = self.w
        ex = E.Exec(w, self, ch, self.timeout_ms); self.last_ex = ex
        self.paths += 1
        frame = dict(rel=c.rel, func=node, contract=c, var_types=dict(c.hints.get('var_types', {})), ext_funcs=c.hints.get('ext_funcs'))
        ex.frames.append(frame)
        facts = []
        env = {}
        a = node.args
        pnames = [p.arg for p in a.posonlyargs + a.args + a.kwonlyargs]
        if a.vararg: pnames.append(a.vararg.arg)
        if a.kwarg: pnames.append(a.kwarg.arg)
        bags = c.hints.get('kwargs_bag', {})      # `**kwargs` parameter modelled as a keyword bag: each listed key present or absent (one path each), other keywords not modelled
        for p in pnames:
            if p in bags:
                env[p] = E.KwDict({k_: havoc(w.ty(kty), p + '_' + k_, facts) for k_, kty in bags[p].items() if ex.choose(2) == 1}); continue
            if p not in c.params: raise Unsupported('parameter %s of %s has no declared type' % (p, c.key))
            env[p] = havoc(w.ty(c.params[p]), p, facts)
        for g, gty in c.ghost.items(): env[g] = havoc(w.ty(gty), g, facts)
        for s, sty in c.state.items(): env[s] = havoc(w.ty(sty), s, facts)
        for pn, alias in c.hints.get('entry_values', {}).items(): env[alias] = env[pn]     # ghost names for parameter entry values
        self.cur_inputs = {k_: v_ for k_, v_ in env.items() if isinstance(v_, E.V)}
        ex.st.env = env
        try:
            for f in facts: ex.assume(f)
            for ax in w.axioms:
                if any(u in _names_used(c) for u in _spec_names(ax, w)): ex.assume(ex.eval_spec(ax))
            for v in env.values():
                if isinstance(v, E.V) and isinstance(v.ty, TRef):
                    if ex.st.alloc is None: ex.st.alloc = self.alloc0()
                    ex.assume(z3.Select(ex.st.alloc, v.t))
            for r in c.requires: ex.assume(ex.eval_spec(r))
            if not ex.feasible():
                self.path_kinds['infeasible-pre'] = self.path_kinds.get('infeasible-pre', 0) + 1; return
            ex.old = ex.st.copy(); ex.old.env = dict(env)
            entry_env = dict(env)
            for p in bags:      # (bags are mutated in place: keep the entry value apart)
                entry_env[p] = E.KwDict(dict(env[p].items)); ex.old.env[p] = entry_env[p]
            kind = 'normal'; result = NONE; exc = None
            try:
                ex.exec_block(node.body)
            except E.ReturnSig as r:
                result = r.v
            except E.RaiseSig as r:
                kind = 'raise'; exc = r.exc
            except (E.BreakSig, E.ContinueSig):
                raise Unsupported('break/continue outside loop')
            # exits
            post_env = dict(ex.st.env)
            for p in pnames: post_env[p] = entry_env[p]     # parameters in postconditions denote entry values
            for g in c.ghost:
                if g not in c.hints.get('ghost_out', ()): post_env[g] = entry_env[g]     # ghost_out: the final value is the existential witness of the postcondition
            if kind == 'normal':
                if isinstance(result, E.IterV): result = ex.materialize(result)
                rty = w.ty(c.returns)
                if isinstance(result, V):
                    try: result = ex.co(result, rty)
                    except Unsupported as e: raise Unsupported('return value of %s: %s' % (c.key, e))
                post_env['result'] = result
                if c.hints.get('lemmas'):
                    saved_env = ex.st.env; ex.st.env = post_env
                    try:
                        for h in c.hints['lemmas']: ex.assume_lemma(h)       # instances of definitional axioms of recursive spec functions
                    finally: ex.st.env = saved_env
                for k, e in enumerate(c.ensures):
                    f = ex.eval_spec(e, env=post_env)
                    ex.prove(f, '%s/post#%d' % (c.oname, k), 'post', e, c.tags.get(e, 'property'))
            else:
                spec = None
                if exc.cls in c.raises: spec = c.raises[exc.cls]       # the clause of the class itself, if declared ...
                else:
                    # ... else the most specific declared ancestor (a declared class that is itself a subclass of every other matching one)
                    cands = [ecls for ecls in c.raises if ex.exc_isinstance(exc.cls, ecls)]
                    best = [e1 for e1 in cands if all(ex.exc_isinstance(e1, e2) for e2 in cands)]
                    if best: spec = c.raises[best[0]]
                    elif cands: spec = c.raises[cands[0]]
                if spec is None:
                    self.prove(ex, z3.BoolVal(False), '%s/raises-only-declared' % c.oname, 'raises',
                               'no exception other than %s escapes (got %s at line %s)' % (sorted(c.raises) or 'none', exc.cls, ex.cur_loc), 'auxiliary')
                else:
                    post_env['exc'] = V(TExc, exc)
                    if spec.get('only_if'):
                        f = ex.eval_spec(spec['only_if'], env=entry_env, heap=ex.old.heap)
                        ex.prove(f, '%s/raises[%s]-only-if' % (c.oname, exc.cls), 'raises', spec['only_if'], 'property')
                    for k, e in enumerate(spec.get('ensures', [])):
                        f = ex.eval_spec(e, env=post_env)
                        ex.prove(f, '%s/raises[%s]#%d' % (c.oname, exc.cls, k), 'raises', e, 'property')
            self.path_kinds[kind] = self.path_kinds.get(kind, 0) + 1
        except E.PathEnd:
            self.path_kinds['loop-step'] = self.path_kinds.get('loop-step', 0) + 1
        except E.Infeasible:
            self.path_kinds['infeasible'] = self.path_kinds.get('infeasible', 0) + 1
        except E.NeedFork:
            raise Unsupported('fork requested in no-fork context')

def _spec_names(ax, w):
    import re
    return [n for n in re.findall(r'[A-Za-z_]\w*', ax) if n in w.ufuncs]

_names_cache = {}
def _names_used(c):
    """identifiers occurring in the contract text (to decide which global axioms are relevant)"""
    import re
    if c.key not in _names_cache:
        txt = ' '.join(c.requires + c.ensures + [str(c.raises), str(c.loops), str(c.call_ghost)])
        _names_cache[c.key] = set(re.findall(r'[A-Za-z_]\w*', txt)) | set(c.hints.get('axioms', []))
    return _names_cache[c.key]

_hier_cache = {}
def class_hierarchy(rel):
    """(class names in definition order, name -> set of all (transitive) subclasses incl. itself) for one module"""
    if rel in _hier_cache: return _hier_cache[rel]
    m = repo.module(rel); names = []; bases = {}
    for st in ast.walk(m.tree):
        if isinstance(st, ast.ClassDef):
            names.append(st.name); bases[st.name] = [ast.unparse(b).split('.')[-1].split('[')[0] for b in st.bases]
    subs = {n: {n} for n in names}
    changed = True
    while changed:
        changed = False
        for n in names:
            for b in bases[n]:
                if b in subs:
                    new = subs[n] - subs[b]
                    if new: subs[b] |= new; changed = True
    _hier_cache[rel] = (names, subs)
    return names, subs

def _walk_own(fn):
    """walk a function body without descending into nested function/class definitions"""
    stack = list(reversed(fn.body))
    while stack:
        n = stack.pop()
        yield n
        if isinstance(n, (ast.FunctionDef, ast.AsyncFunctionDef, ast.ClassDef, ast.Lambda)): continue
        stack.extend(reversed(list(ast.iter_child_nodes(n))))

def run_cvc5(smt, timeout_s):
    import subprocess, tempfile
    with tempfile.NamedTemporaryFile('w', suffix='.smt2', delete=False, dir=os.environ.get('PYVC_TMP', None)) as fh:
        fh.write('(set-logic ALL)\n' + smt); p = fh.name
    try:
        out = subprocess.run(['/usr/bin/cvc5', '--strings-exp', '--tlimit=%d' % (timeout_s * 1000), p], capture_output=True, text=True, timeout=timeout_s + 5).stdout
    except Exception:
        out = ''
    finally:
        os.unlink(p)
    first = out.strip().split('\n')[0] if out.strip() else ''
    return {'unsat': z3.unsat, 'sat': z3.sat}.get(first, z3.unknown)

def concretize(m, v, depth=0):
    """model value of a symbolic V as plain JSON-able python"""
    ty = v.ty
    ev = lambda t: m.eval(t, model_completion=True)
    if ty is TNone: return None
    if ty is TInt: return ev(v.t).as_long()
    if ty is TBool: return z3.is_true(ev(v.t))
    if ty is TStr:
        from .strlib import _unescape_z3
        return _unescape_z3(ev(v.t).as_string())
    if ty is TFloat: return str(ev(v.t))
    if isinstance(ty, TEnum): return str(ev(v.t))
    if isinstance(ty, (TAny, TRef)): return str(ev(v.t))
    if isinstance(ty, TOpt): return None if z3.is_true(ev(v.t[0])) else concretize(m, v.t[1], depth)
    if isinstance(ty, TTuple): return [concretize(m, x, depth) for x in v.t]
    if isinstance(ty, TRec): return {k: concretize(m, x, depth) for k, x in v.t.items()}
    if isinstance(ty, TSeq):
        n = ev(v.t[0]).as_long()
        return [concretize(m, seq_get(v, z3.IntVal(i)), depth + 1) for i in range(min(n, 8))] + (['...(%d)' % n] if n > 8 else [])
    if isinstance(ty, TSet): return 'set:' + str(ev(v.t[0]))[:200]
    if isinstance(ty, TMap): return 'map:' + str(ev(v.t[0]))[:200]
    return str(ty)
