"""./check <PID> [--tier quick|thorough]  — decide one property on /repo's current working tree.

exit 0: every obligation generated from the current source was discharged (and the bounded stand-ins found nothing)
exit 1: VIOLATION property=<id> replay=<path>   (a contract clause has a definite counter-model / a native failing input)
exit 2: undecided (solver unknown, function left the supported subset, stale contract)
exit 3: checker crash / engine self-inconsistency
"""
import sys, os, json, time, importlib, subprocess, traceback, argparse, hashlib
from concurrent.futures import ProcessPoolExecutor

ROOT = os.path.dirname(os.path.dirname(os.path.abspath(__file__)))
sys.path.insert(0, ROOT)
REPO = os.environ.get('VERIF_REPO', '/repo')

def _verify_one(job):
    pid, key, tier = job
    try:
        mod = importlib.import_module('contracts.%s.world' % pid)
        w = mod.build()
        from pyvc.verify import Verifier
        vf = Verifier(w, tier=tier, outdir=os.path.join(ROOT, 'out', pid, 'smt2'))
        if hasattr(mod, 'configure'): mod.configure(vf)
        return vf.verify(w.contracts[key])
    except Exception:
        return dict(function=key, status='crash', error=traceback.format_exc(), obligations=[], assumptions=[], inlined=[], bounded=[], paths=0, seconds=0)

def type_decls(w):
    from pyvc import vtypes as T
    out = {}
    for name, ty in w.types.items():
        if isinstance(ty, T.TEnum) and name in w.enum_src: out[name] = dict(kind='enum', rel=w.enum_src[name][0], cls=w.enum_src[name][1])
        elif isinstance(ty, T.TRec) and name in w.rec_src: out[name] = dict(kind='rec', rel=w.rec_src[name][0], cls=w.rec_src[name][1], fields=[(f, t.key if False else _tystr(w, t)) for f, t in ty.fields])
        elif isinstance(ty, T.TRef) and name in w.class_src: out[name] = dict(kind='class', rel=w.class_src[name][0], cls=w.class_src[name][1])
    return out

def _tystr(w, ty):
    from pyvc import vtypes as T
    for n, t in w.types.items():
        if t == ty and n not in ('None',): return n
    if isinstance(ty, T.TOpt): return 'Opt[%s]' % _tystr(w, ty.inner)
    if isinstance(ty, T.TSeq): return 'Seq[%s]' % _tystr(w, ty.elem)
    if isinstance(ty, T.TSet): return 'Set[%s]' % _tystr(w, ty.elem)
    if isinstance(ty, T.TTuple): return 'Tuple[%s]' % ','.join(_tystr(w, t) for t in ty.items)
    return ty.key

def native_bundle(w, mod, contracts, seed, tier, replays):
    import ast
    from pyvc import repo
    cs = []
    for c in contracts:
        if '<locals>' in c.qual or c.state or c.hints.get('ghost_out') or c.hints.get('kwargs_bag'): continue     # (ghost witnesses have no native counterpart)
        node, cls = repo.find_def(c.rel, c.qual)
        a = node.args
        order = [p.arg for p in a.posonlyargs + a.args + a.kwonlyargs]
        decos = [ast.unparse(d) for d in node.decorator_list]
        is_cm = 'classmethod' in decos
        cs.append(dict(key=c.key, rel=c.rel, qual=c.qual, param_order=order, kwonly=[p.arg for p in a.kwonlyargs],
                       params=c.params, ghost=c.ghost, requires=c.requires, ensures=c.ensures,
                       raises={k: dict(only_if=v.get('only_if'), ensures=v.get('ensures', [])) for k, v in c.raises.items()},
                       is_classmethod=is_cm, replay=replays.get(c.key, []), gen=c.hints.get('gen', {}),
                       enumerate=c.hints.get('enumerate', True), materialize=c.hints.get('materialize', False)))
    return dict(types=type_decls(w), defs=w.defs, exec_defs=getattr(w, 'exec_defs', {}), contracts=cs, seed=seed,
                gen=getattr(w, 'gen', {}), cap=(3000 if tier == 'quick' else 60000))

def run_native(bundle, pid, tag):
    d = os.path.join(ROOT, 'out', pid); os.makedirs(d, exist_ok=True)
    bp = os.path.join(d, 'native_%s_in.json' % tag); op = os.path.join(d, 'native_%s_out.json' % tag)
    json.dump(bundle, open(bp, 'w'))
    if os.path.exists(op): os.unlink(op)
    env = dict(os.environ); env['PYTHONPATH'] = '%s:%s:%s' % (os.path.join(ROOT, 'stubs'), REPO, ROOT); env['VERIF_REPO'] = REPO
    p = subprocess.run(['/venv/bin/python', os.path.join(ROOT, 'pyvc', 'native_run.py'), bp, op], capture_output=True, text=True, env=env, cwd=REPO, timeout=3600)
    if not os.path.exists(op):
        return dict(error=(p.stderr or p.stdout)[-3000:], functions={}, evaluations=0)
    return json.load(open(op))

def load_known(pid):
    p = os.path.join(ROOT, 'known_findings.json')
    if not os.path.exists(p): return []
    return [k for k in json.load(open(p)).get('findings', []) if k.get('property') == pid and k.get('status') == 'open']

def main(argv=None):
    ap = argparse.ArgumentParser()
    ap.add_argument('pid'); ap.add_argument('--tier', default=os.environ.get('VERIF_TIER', 'quick'))
    ap.add_argument('--only', default=None); ap.add_argument('--jobs', type=int, default=min(16, os.cpu_count() or 4))
    ap.add_argument('--no-native', action='store_true'); ap.add_argument('-v', action='store_true')
    ap.add_argument('--write-expected', action='store_true', help='record the obligation ids generated on this (unchanged) tree')
    args = ap.parse_args(argv)
    pid, tier = args.pid, args.tier
    seed = int(os.environ.get('VERIF_SEED', '0'))
    t0 = time.time()
    try:
        rc = run(pid, tier, seed, args, t0)
    except SystemExit: raise
    except Exception:
        traceback.print_exc()
        print('CHECKER-CRASH property=%s' % pid); rc = 3
    sys.exit(rc)

def run(pid, tier, seed, args, t0):
    mod = importlib.import_module('contracts.%s.world' % pid)
    w = mod.build()
    outdir = os.path.join(ROOT, 'out', pid); os.makedirs(os.path.join(outdir, 'replay'), exist_ok=True)
    for f in os.listdir(os.path.join(outdir, 'replay')): os.unlink(os.path.join(outdir, 'replay', f))
    targets = [c for c in w.contracts.values() if not c.trusted and not c.inline]
    if args.only: targets = [c for c in targets if args.only in c.key]
    jobs = [(pid, c.key, tier) for c in targets]
    with ProcessPoolExecutor(max_workers=args.jobs) as pool:
        results = list(pool.map(_verify_one, jobs))
    # ---- extra (non-SMT) obligations: ownership scans, table enumerations ...
    extra = []
    if hasattr(mod, 'extra_obligations') and not args.only:
        extra = mod.extra_obligations(w, tier, seed)
    # ---- collect
    obls = []; undecided = []; crashed = []
    assumptions = set(w.trusted); inlined = set(); bounded = []
    for r in results:
        for o in r['obligations']: o['function'] = r['function']; obls.append(o)
        assumptions.update(r.get('assumptions', [])); inlined.update(r.get('inlined', [])); bounded += r.get('bounded', [])
        if r['status'] in ('unsupported', 'stale', 'vacuous'): undecided.append((r['function'], r['status'], r['error']))
        elif r['status'] == 'crash': crashed.append((r['function'], r['error']))
    for o in extra: obls.append(o)
    for c in w.contracts.values():
        if c.trusted: assumptions.add('assumed contract (body not verified): %s' % c.key)
    for k in sorted(inlined): assumptions.add('inlined at call sites (treated as part of the caller body): %s' % k)
    failed = [o for o in obls if o['status'] == 'failed']
    unknown = [o for o in obls if o['status'] == 'unknown']
    # ---- native: replay counter-models and run the bounded stand-in
    native = dict(functions={}, evaluations=0); native_fail = []; scenario_known = []
    replays = {}
    for o in failed:
        if o.get('model') and o.get('function'):
            replays.setdefault(o['function'], []).append(dict(obligation=o['id'], inputs=o['model']))
    if not args.no_native:
        try:
            bundle = native_bundle(w, mod, targets, seed, tier, replays)
            if hasattr(mod, 'native_hook'): mod.native_hook(bundle, tier)
            native = run_native(bundle, pid, tier)
        except Exception:
            native = dict(error=traceback.format_exc(), functions={}, evaluations=0)
        for fk, fr in native.get('functions', {}).items():
            for f in fr.get('failures', []): f['function'] = fk; native_fail.append(f)
        # property-specific scenario explorer on the real code (bounded stand-in; histories / schedules)
        if hasattr(mod, 'scenarios') and not args.only:
            try:
                sc = mod.scenarios(tier, seed, REPO, os.path.join(ROOT, 'out', pid))
                native['evaluations'] = native.get('evaluations', 0) + sc.get('evaluations', 0)
                native['scenarios'] = {k: v for k, v in sc.items() if k != 'failure'}
                if sc.get('failure'):
                    native_fail.append(dict(kind='scenario', clause=sc.get('clause', 'property statement on a concrete history'), function='scenario:' + pid, inputs=sc['failure']))
                # failures the explorer itself attributes to a recorded finding (identified by the failing statement): listed findings are reported as such, unlisted ones are violations
                for kid, info in (sc.get('known') or {}).items():
                    listed = [k for k in load_known(pid) if k['id'] == kid]
                    if listed: scenario_known.append('KNOWN-FINDING: property=%s %s [%s; met in %s]' % (pid, listed[0]['summary'], kid, info.get('scenario')))
                    else: native_fail.append(dict(kind='scenario', clause=sc.get('clause', ''), function='scenario:' + pid, inputs=dict(kind=kid, **info)))
            except Exception:
                native['error'] = traceback.format_exc()
    # ---- known findings
    known = load_known(pid); known_lines = list(scenario_known)
    def is_known(desc):
        for k in known:
            if 'match' not in k: continue
            if k['match'].get('function') and k['match']['function'] not in desc.get('function', ''): continue
            if k['match'].get('obligation') and k['match']['obligation'] != desc.get('id'): continue
            if k['match'].get('clause') and k['match']['clause'] != desc.get('clause'): continue
            return k
        return None
    # recorded open findings: re-run each witness on the real code; it must still fail to be reported as KNOWN-FINDING
    kf_notes = []
    for k in known:
        if not k.get('witness_cmd') or args.only: continue
        env = dict(os.environ); env['PYTHONPATH'] = '%s:%s:%s' % (os.path.join(ROOT, 'stubs'), REPO, ROOT); env['VERIF_REPO'] = REPO
        try:
            pr = subprocess.run(['/venv/bin/python', os.path.join(ROOT, k['witness_cmd'][0])] + k['witness_cmd'][1:], capture_output=True, text=True, env=env, cwd=REPO, timeout=600)
            if pr.returncode == 1:
                known_lines.append('KNOWN-FINDING: property=%s %s [%s]' % (pid, k['summary'], k['id']))
                kf_notes.append(dict(id=k['id'], reproduced=True, output=pr.stdout.strip()[-400:]))
            elif pr.returncode == 0:
                kf_notes.append(dict(id=k['id'], reproduced=False, note='witness no longer fails on this tree: entry can be retired'))
            else:
                kf_notes.append(dict(id=k['id'], reproduced=None, error=(pr.stderr or pr.stdout)[-600:]))
        except Exception as e:
            kf_notes.append(dict(id=k['id'], reproduced=None, error=repr(e)))
    # ---- verdict
    violations = []
    for o in failed:
        k = is_known(o)
        if k: known_lines.append('KNOWN-FINDING: property=%s %s' % (pid, k['summary'])); continue
        rep = None
        fr = native.get('functions', {}).get(o.get('function'), {})
        for rp in fr.get('replayed', []):
            if rp.get('obligation') == o['id'] and rp.get('reproduced'): rep = rp
        if rep is None:
            # any native failure of the same function counts as a replayable witness for it
            for f in native_fail:
                if f['function'] == o.get('function') or f['function'].startswith('scenario:'): rep = dict(reproduced=True, failure=f, via='bounded stand-in'); break
        if rep is None and hasattr(mod, 'find_witness'):
            rep = mod.find_witness(w, o, native)
        path = os.path.join(outdir, 'replay', _safe(o['id']) + '.json')
        json.dump(dict(property=pid, obligation=o, reproduced=bool(rep), witness=rep,
                       note='counter-model of a verification condition generated from the current /repo source'), open(path, 'w'), indent=1)
        violations.append((o, path, rep))
    seen_native = set()
    for f in native_fail:
        if any(v[0].get('function') == f['function'] for v in violations): continue
        if f['function'].startswith('scenario:') and violations: continue     # already attached as the witness of the failed obligations
        k = is_known(dict(function=f['function'], clause=f.get('clause')))
        if k: known_lines.append('KNOWN-FINDING: property=%s %s' % (pid, k['summary'])); continue
        if f['function'] in seen_native: continue
        seen_native.add(f['function'])
        path = os.path.join(outdir, 'replay', _safe('native__' + f['function']) + '.json')
        und = [dict(id=o['id'], clause=o['clause'], where=o.get('where'), smt2=o.get('smt2')) for o in unknown]
        json.dump(dict(property=pid, native_failure=f, undischarged_obligations=und,
                       note=('the listed obligations, discharged on the unchanged tree, are no longer discharged (solver gave no counter-model); the bounded stand-in found this failing input / schedule on the real code' if und else
                             'bounded stand-in found a failing input on the real function while the proof passed: engine/encoding disagreement or a contract the proof does not cover')), open(path, 'w'), indent=1)
        violations.append((dict(id='native:' + f['function'], clause=f.get('clause'), function=f['function']), path, dict(reproduced=True, failure=f)))
    wall = time.time() - t0
    # ---- evidence
    n_obl = len(obls); n_dis = len([o for o in obls if o['status'] == 'discharged'])
    backends = {}
    for o in obls: backends[o.get('backend', 'z3')] = backends.get(o.get('backend', 'z3'), 0) + 1
    samples = [dict(id=o['id'], kind=o['kind'], clause=o['clause'], status=o['status'], backend=o.get('backend'), seconds=o['seconds'], paths=o.get('paths')) for o in obls[:6]]
    samples += [dict(id=o['id'], kind=o['kind'], clause=o['clause'], status=o['status']) for o in (failed + unknown)[:6]]
    ev = dict(property_id=pid, tier=tier, seed=seed, level='proof',
              coverage=dict(obligations=n_obl, discharged=n_dis,
                            checker_cmd='./check %s --tier %s  (pyvc: ast->VC generator over /repo source, z3 %s; cvc5 for unknowns)' % (pid, tier, _z3v()),
                            trusted_base=sorted(assumptions), samples=samples,
                            functions_under_contract=[dict(function=r['function'], sha=r.get('sha'), lines=r.get('lines'), status=r['status'], paths=r.get('paths'), seconds=r.get('seconds'), obligations=len(r['obligations'])) for r in results],
                            by_kind=_count(obls, 'kind'), by_tag=_count(obls, 'tag'), by_backend=backends,
                            solver_seconds=round(sum(o['seconds'] for o in obls), 3),
                            undecided=[dict(function=f, status=s, reason=(e or '')[-400:]) for f, s, e in undecided],
                            unknown_obligations=[o['id'] for o in unknown],
                            bounded_stand_in=dict(label='bounded (never counted as proved)', evaluations=native.get('evaluations', 0),
                                                  failures=len(native_fail), error=native.get('error'),
                                                  per_function={k: dict(evaluations=v.get('evaluations'), exhaustive_small_scope=v.get('exhaustive_small_scope'), skipped=v.get('skipped')) for k, v in native.get('functions', {}).items()},
                                                  unrolled_loops=bounded),
                            known_finding_splits=[k['id'] for k in known], known_finding_witnesses=kf_notes),
              assumptions=sorted(assumptions), wall_s=round(wall, 2), violations=len(violations))
    if hasattr(mod, 'evidence_hook'): mod.evidence_hook(ev, w, results, extra)
    os.makedirs(os.path.join(ROOT, 'evidence'), exist_ok=True)
    if not args.only:
        # evidence is only ever written for runs against /repo itself (scratch copies used for seeded changes write under out/)
        evp = os.path.join(ROOT, 'evidence', pid + '.json') if os.path.realpath(REPO) == '/repo' else os.path.join(outdir, 'evidence_scratch.json')
        json.dump(ev, open(evp, 'w'), indent=1)
    # ---- report
    print('%s [%s]: %d functions, %d obligations, %d discharged, %d failed, %d unknown; native evaluations %d; %.1fs' % (
        pid, tier, len(results), n_obl, n_dis, len(failed), len(unknown), native.get('evaluations', 0), wall))
    if args.v:
        for r in results:
            print('  %-80s %-11s paths=%-4s obl=%-3d %.2fs' % (r['function'], r['status'], r.get('paths'), len(r['obligations']), r.get('seconds', 0)))
    for l in sorted(set(known_lines)): print(l)
    for f, e in crashed: print('CRASH in %s:\n%s' % (f, e))
    if native.get('error'): print('NATIVE-RUNNER-ERROR:\n%s' % native['error'])
    for o, path, rep in violations:
        tail = '' if rep and rep.get('reproduced') else ' no-failing-input-found'
        print('  failed obligation %s: %s' % (o['id'], o.get('clause')))
        print('VIOLATION property=%s replay=%s%s' % (pid, path, tail))
    for f, s, e in undecided: print('UNDECIDED property=%s function=%s (%s): %s' % (pid, f, s, (e or '').strip().split('\n')[-1][:300]))
    for o in unknown: print('UNDECIDED property=%s obligation=%s (solver unknown)' % (pid, o['id']))
    # vacuity guard: obligation count must not drop below the committed expectation
    exp_p = os.path.join(ROOT, 'contracts', pid, 'EXPECTED.json')
    if args.write_expected and not violations and not undecided and not unknown and not crashed:
        json.dump(dict(obligation_ids=sorted(o['id'] for o in obls)), open(exp_p, 'w'), indent=0)
    if os.path.exists(exp_p) and not args.only:
        exp = json.load(open(exp_p))
        missing = [i for i in exp['obligation_ids'] if i not in {o['id'] for o in obls}]
        if missing and not undecided and not crashed:
            for i in missing[:10]: print('UNDECIDED property=%s obligation=%s (expected obligation no longer generated: vacuity guard)' % (pid, i))
            if not violations: return 2
    if violations: return 1
    if crashed or native.get('error'): return 3
    if undecided or unknown: return 2
    if n_obl == 0: print('UNDECIDED property=%s: zero obligations generated' % pid); return 2
    return 0

def _safe(s): return ''.join(ch if ch.isalnum() or ch in '._-' else '_' for ch in s)[:150]
def _count(obls, k):
    d = {}
    for o in obls: d[o.get(k)] = d.get(o.get(k), 0) + 1
    return d
def _z3v():
    try:
        import z3; return z3.get_version_string()
    except Exception: return '?'

if __name__ == '__main__':
    main()
