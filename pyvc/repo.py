"""Mechanical extraction of functions/classes/constants from /repo source text."""
import ast, hashlib, os

REPO = os.environ.get('VERIF_REPO', '/repo')

class ModuleInfo:
    def __init__(self, relpath):
        self.relpath = relpath
        self.path = os.path.join(REPO, relpath)
        with open(self.path, encoding='utf-8') as f:
            self.text = f.read()
        self.tree = ast.parse(self.text, filename=self.path)
        self.funcs = {}; self.classes = {}; self.assigns = {}; self.imports = {}
        self._scan(self.tree.body)

    def _scan(self, body):
        for st in body:
            if isinstance(st, (ast.FunctionDef, ast.AsyncFunctionDef)):
                self.funcs[st.name] = st
            elif isinstance(st, ast.ClassDef):
                self.classes[st.name] = st
            elif isinstance(st, ast.Assign):
                for t in st.targets:
                    if isinstance(t, ast.Name): self.assigns[t.id] = st.value
                    elif isinstance(t, ast.Tuple) and isinstance(st.value, ast.Tuple) and len(t.elts) == len(st.value.elts):
                        for a, b in zip(t.elts, st.value.elts):
                            if isinstance(a, ast.Name): self.assigns[a.id] = b
            elif isinstance(st, ast.AnnAssign) and st.value is not None and isinstance(st.target, ast.Name):
                self.assigns[st.target.id] = st.value
            elif isinstance(st, ast.Import):
                for a in st.names:
                    self.imports[(a.asname or a.name).split('.')[0]] = ('module', a.name if a.asname else a.name.split('.')[0])
            elif isinstance(st, ast.ImportFrom):
                base = self._resolve_from(st)
                for a in st.names:
                    self.imports[a.asname or a.name] = ('from', base, a.name)
            elif isinstance(st, ast.If):
                # TYPE_CHECKING blocks etc: scan both arms for definitions
                self._scan(st.body); self._scan(st.orelse)
            elif isinstance(st, ast.Try):
                self._scan(st.body)

    def _resolve_from(self, st):
        if st.level == 0: return st.module or ''
        pkg = self.relpath[:-3].split('/')
        pkg = pkg[:-1] if not self.relpath.endswith('__init__.py') else pkg[:-1]
        for _ in range(st.level - 1): pkg = pkg[:-1]
        return '.'.join(pkg + ([st.module] if st.module else []))

_modules = {}
def module(relpath):
    if relpath not in _modules:
        _modules[relpath] = ModuleInfo(relpath)
    return _modules[relpath]

def module_by_dotted(dotted):
    """edb.x.y -> ModuleInfo or None"""
    p = dotted.replace('.', '/')
    for cand in (p + '.py', p + '/__init__.py'):
        if os.path.exists(os.path.join(REPO, cand)):
            return module(cand)
    return None

def find_def(relpath, qualname):
    """qualname like 'f', 'Cls.meth', 'outer.<locals>.inner' -> (node, class_node or None)"""
    m = module(relpath)
    parts = [p for p in qualname.split('.') if p != '<locals>']
    node = None; cls = None
    body = m.tree.body
    scope_funcs = dict(m.funcs); scope_classes = dict(m.classes)
    for i, p in enumerate(parts):
        found = None
        for st in body:
            if isinstance(st, (ast.FunctionDef, ast.AsyncFunctionDef, ast.ClassDef)) and st.name == p:
                found = st
            elif isinstance(st, (ast.If, ast.Try)):
                for s2 in ast.walk(st):
                    if isinstance(s2, (ast.FunctionDef, ast.AsyncFunctionDef, ast.ClassDef)) and s2.name == p and found is None:
                        found = s2
        if found is None:
            # nested deeper (e.g. inside try/for in a function)
            for st in body:
                for s2 in ast.walk(st):
                    if isinstance(s2, (ast.FunctionDef, ast.AsyncFunctionDef, ast.ClassDef)) and s2.name == p and found is None:
                        found = s2
        if found is None:
            raise KeyError('%s:%s not found (at %s)' % (relpath, qualname, p))
        if isinstance(found, ast.ClassDef): cls = found
        node = found
        body = found.body
    return node, (cls if cls is not node else None)

def source_of(relpath, node):
    return ast.get_source_segment(module(relpath).text, node) or ''

def sha_of(relpath, node):
    return hashlib.sha256(source_of(relpath, node).encode()).hexdigest()[:16]

def norm_src(node):
    """normalised source text of an AST node (fingerprints)"""
    return ast.unparse(node)
