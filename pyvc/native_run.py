"""Native side (runs under /venv/bin/python with PYTHONPATH=/verif/stubs:/repo): executes the REAL
functions of /repo on concrete inputs and evaluates the executable form of the same contract clauses.

Used for (a) replaying solver counter-models, (b) the bounded stand-in / counterexample finder
(small-scope enumeration), (c) cross-checking the engine's encoding against CPython.
Never counted as proof.

usage: native_run.py <bundle.json> <out.json>
"""
import sys, json, importlib, itertools, math, random, copy, ast, traceback, os

def load_obj(rel, qual):
    mod = importlib.import_module(rel[:-3].replace('/', '.').replace('.__init__', ''))
    obj = mod
    for p in qual.split('.'):
        if p == '<locals>': raise LookupError('nested function is not importable')
        obj = getattr(obj, p)
    return obj

class Types:
    def __init__(self, decl):
        self.decl = decl; self.cache = {}
    def cls(self, name):
        d = self.decl[name]
        if name not in self.cache: self.cache[name] = load_obj(d['rel'], d['cls'])
        return self.cache[name]
    def split(self, s):
        s = s.strip()
        if '[' not in s: return s, []
        head, inner = s.split('[', 1); inner = inner[:-1]
        out, depth, cur = [], 0, ''
        for ch in inner:
            if ch == '[': depth += 1
            if ch == ']': depth -= 1
            if ch == ',' and depth == 0: out.append(cur); cur = ''
            else: cur += ch
        if cur.strip(): out.append(cur)
        return head, out
    def from_json(self, s, v):
        """model/JSON value -> python value of spec type s"""
        head, inner = self.split(s)
        if head in ('int', 'bool', 'str', 'float'): return v
        if head in ('none', 'None'): return None
        if head == 'Opt': return None if v is None else self.from_json(inner[0], v)
        if head == 'Seq': return tuple(self.from_json(inner[0], x) for x in v)
        if head == 'List': return [self.from_json(inner[0], x) for x in v]
        if head == 'Tuple': return tuple(self.from_json(t, x) for t, x in zip(inner, v))
        if head == 'Set': return frozenset(self.from_json(inner[0], x) for x in v)
        d = self.decl.get(head)
        if d is None: raise LookupError('type %s' % head)
        if d['kind'] == 'alias': return self.from_json(d['of'], v)
        if d['kind'] == 'enum': return getattr(self.cls(head), v) if isinstance(v, str) else self.cls(head)(v)
        if d['kind'] == 'rec': return self.cls(head)(**{f: self.from_json(t, v[f]) for f, t in d['fields']})
        raise LookupError('cannot build value of type %s' % s)
    def domain(self, s, gen):
        """small-scope candidate values of spec type s"""
        if s in gen: return list(gen[s])
        head, inner = self.split(s)
        if head == 'int': return gen.get('int', [0, 1, 2, 3])
        if head == 'bool': return [False, True]
        if head == 'str': return gen.get('str', ['', 'a', "'", '\\'])
        if head in ('none', 'None'): return [None]
        if head == 'Opt': return [None] + self.domain(inner[0], gen)
        if head in ('Seq', 'List'):
            el = self.domain(inner[0], gen); out = []
            for n in range(0, gen.get('maxlen', 3) + 1):
                for t in itertools.product(el, repeat=n):
                    out.append(tuple(t) if head == 'Seq' else list(t))
                    if len(out) > 4000: return out
            return out
        if head == 'Tuple': return [tuple(t) for t in itertools.product(*[self.domain(i, gen) for i in inner])]
        if head == 'Set':
            el = self.domain(inner[0], gen)[:4]
            return [frozenset(c) for n in range(len(el) + 1) for c in itertools.combinations(el, n)]
        d = self.decl.get(head)
        if d is None: raise LookupError('type %s' % head)
        if d['kind'] == 'alias': return self.domain(d['of'], gen)
        if d['kind'] == 'enum': return list(self.cls(head))
        if d['kind'] == 'rec':
            return [self.cls(head)(*t) for t in itertools.product(*[self.domain(t, gen) for _, t in d['fields']])]
        raise LookupError('no domain for %s' % s)

class _Old(ast.NodeTransformer):
    def __init__(self): self.inside = 0
    def visit_Call(self, n):
        # logical connectives are lazy in the specification language: implies(a, b) must not evaluate b when a is false
        if isinstance(n.func, ast.Name) and n.func.id == 'implies' and len(n.args) == 2:
            a, b = self.visit(n.args[0]), self.visit(n.args[1])
            return ast.BoolOp(op=ast.Or(), values=[ast.UnaryOp(op=ast.Not(), operand=a), b])
        if isinstance(n.func, ast.Name) and n.func.id == 'ite' and len(n.args) == 3:
            c, a, b = (self.visit(x) for x in n.args)
            return ast.IfExp(test=c, body=a, orelse=b)
        if isinstance(n.func, ast.Name) and n.func.id == 'old' and not self.inside:
            self.inside += 1
            body = self.visit(n.args[0]); self.inside -= 1
            return body
        return self.generic_visit(n)
    def visit_Name(self, n):
        if self.inside and isinstance(n.ctx, ast.Load):
            return ast.Subscript(value=ast.Name(id='__oldns__', ctx=ast.Load()), slice=ast.Constant(n.id), ctx=ast.Load())
        return n

class SpecNS:
    """executable meaning of the spec vocabulary"""
    def __init__(self, bundle, types):
        self.b = bundle; self.types = types
        ns = self.ns = {}
        ns.update(implies=lambda a, b: (not a) or bool(b), iff=lambda a, b: bool(a) == bool(b), ite=lambda c, a, b: a if c else b,
                  is_none=lambda x: x is None, some=lambda x: x, subset=lambda a, b: set(a) <= set(b), card=len,
                  distinct=lambda s: len(set(s)) == len(s), is_prefix=lambda p, s: list(s[:len(p)]) == list(p),
                  seq_take=lambda s, n: s[:n], str_len=len, str_contains=lambda a, b: b in a, str_at=lambda s, i: s[i:i + 1],
                  str_sub=lambda s, i, n: s[i:i + n] if i >= 0 and n > 0 else '', str_indexof=lambda s, t, i=0: s.find(t, i),
                  str_prefixof=lambda a, b: b.startswith(a), str_suffixof=lambda a, b: b.endswith(a), int_to_str=str,
                  domain=lambda m: set(m.keys()), map_get=lambda m, k: m[k], seq_get=lambda s, i: s[i],
                  set_add=lambda s, x: set(s) | {x}, set_remove=lambda s, x: set(s) - {x}, math=math, __oldns__={})
        ns['forall'] = self.forall; ns['exists'] = self.exists
        for name in types.decl:
            d = types.decl[name]
            if d['kind'] in ('enum', 'rec', 'class'):
                try: ns[name] = types.cls(name)
                except Exception: pass
        for name, src in bundle.get('exec_defs', {}).items():
            ns[name] = eval(src, ns)
        for name, (params, expr) in bundle.get('defs', {}).items():
            ns[name] = self.macro(params, expr)
        self.cur = {}
    def macro(self, params, expr):
        code = compile(ast.fix_missing_locations(ast.Expression(_Old().visit(ast.parse(expr.strip(), mode='eval').body))), '<macro>', 'eval')
        def f(*args):
            g = dict(self.ns); g.update(self.cur); g.update(zip(params, args))
            saved = self.cur; self.cur = {k: v for k, v in g.items() if k not in self.ns or k in saved or k in params}
            try: return eval(code, g)
            finally: self.cur = saved
        return f
    def _dom(self, t):
        if t is int: return range(0, 7)
        if t is bool: return [False, True]
        return list(t)
    def forall(self, *a):
        f = a[-1]
        if len(a) == 3: return all(f(i) for i in range(a[0], a[1]))
        if isinstance(a[0], type): return all(f(*xs) for xs in itertools.product(*[self._dom(t) for t in a[:-1]]))
        return all(f(x) for x in a[0])
    def exists(self, *a):
        f = a[-1]
        if len(a) == 3: return any(f(i) for i in range(a[0], a[1]))
        if isinstance(a[0], type): return any(f(*xs) for xs in itertools.product(*[self._dom(t) for t in a[:-1]]))
        return any(f(x) for x in a[0])
    def ev(self, expr, env, oldns=None):
        tree = _Old().visit(ast.parse(expr.strip(), mode='eval').body)
        code = compile(ast.fix_missing_locations(ast.Expression(tree)), '<spec>', 'eval')
        self.cur = dict(env); self.ns['__oldns__'] = oldns or env
        g = dict(self.ns); g.update(env)
        return eval(code, g)

def jsonable(v):
    import enum
    if isinstance(v, enum.Enum): return v.name
    if isinstance(v, (list, tuple)): return [jsonable(x) for x in v]
    if isinstance(v, (set, frozenset)): return sorted((jsonable(x) for x in v), key=repr)
    if isinstance(v, dict): return {str(k): jsonable(x) for k, x in v.items()}
    if isinstance(v, (int, float, str, bool)) or v is None: return v
    return repr(v)

def run_case(fn, c, spec, env, arg_names):
    """returns None if fine / precondition false, else a failure dict"""
    for r in c['requires']:
        try:
            if not spec.ev(r, env): return None
        except Exception: return None
    oldns = copy.copy(env)
    args = [env[a] for a in arg_names if a in env]
    exc = None; result = None
    try:
        kw = {a: env[a] for a in c.get('kwonly', [])}
        pos = [env[a] for a in arg_names if a not in kw]
        result = fn(*pos, **kw)
        if c.get('materialize') and result is not None and not isinstance(result, (str, bytes, tuple, list, int)):
            try: result = tuple(result)
            except TypeError: pass
    except Exception as e:
        exc = e
    if exc is None:
        env2 = dict(env); env2['result'] = result
        for k, e in enumerate(c['ensures']):
            try: ok = spec.ev(e, env2, oldns)
            except Exception as ee: ok = False; result = '%r (spec error %r)' % (result, ee)
            if not ok:
                return dict(kind='post', clause=e, index=k, inputs=jsonable(env), result=jsonable(result))
        return None
    for ecls, sp in c['raises'].items():
        if any(k.__name__ == ecls for k in type(exc).__mro__):
            if sp.get('only_if'):
                if not spec.ev(sp['only_if'], env, oldns):
                    return dict(kind='raises-only-if', clause=sp['only_if'], inputs=jsonable(env), exception=repr(exc))
            env2 = dict(env); env2['exc'] = exc
            for k, e in enumerate(sp.get('ensures', [])):
                if not spec.ev(e, env2, oldns):
                    return dict(kind='raises-ensures', clause=e, inputs=jsonable(env), exception=repr(exc))
            return None
    return dict(kind='unexpected-exception', clause='no exception other than %s' % sorted(c['raises']), inputs=jsonable(env),
                exception=''.join(traceback.format_exception_only(type(exc), exc)).strip())

def main():
    bundle = json.load(open(sys.argv[1])); out_path = sys.argv[2]
    sys.setrecursionlimit(10000)
    types = Types(bundle['types'])
    spec = SpecNS(bundle, types)
    rnd = random.Random(bundle.get('seed', 0))
    out = dict(functions={}, evaluations=0)
    for c in bundle['contracts']:
        res = dict(evaluations=0, failures=[], skipped=None, replayed=[])
        out['functions'][c['key']] = res
        try:
            fn = load_obj(c['rel'], c['qual'])
            if isinstance(fn, (classmethod, staticmethod)): fn = fn.__func__
        except Exception as e:
            res['skipped'] = 'cannot load: %r' % (e,); continue
        names = c['param_order']; tys = dict(c['params']); tys.update(c.get('ghost', {}))
        if c.get('is_classmethod'):
            names = names[1:]
        # (a) replay of given concrete inputs
        for case in c.get('replay', []):
            try:
                env = {k: types.from_json(tys[k], v) for k, v in case['inputs'].items() if k in tys and tys[k] not in ('none',)}
                f = run_case(fn, c, spec, env, names)
                res['replayed'].append(dict(obligation=case.get('obligation'), reproduced=f is not None, failure=f))
            except Exception as e:
                res['replayed'].append(dict(obligation=case.get('obligation'), reproduced=False, error=repr(e)))
        # (b) small-scope enumeration
        if c.get('enumerate', True):
            gen = dict(bundle.get('gen', {})); gen.update(c.get('gen', {}))
            try:
                allnames = [n for n in names if tys.get(n) not in ('none',)] + list(c.get('ghost', {}))
                doms = [types.domain(tys[n], gen) for n in allnames]
            except Exception as e:
                res['skipped'] = 'no generator: %r' % (e,); continue
            total = 1
            for d in doms: total *= max(1, len(d))
            cap = bundle.get('cap', 20000)
            if total <= cap: it = itertools.product(*doms); res['exhaustive_small_scope'] = True
            else:
                it = (tuple(rnd.choice(d) for d in doms) for _ in range(cap)); res['exhaustive_small_scope'] = False
            for tup in it:
                env = dict(zip(allnames, tup))
                res['evaluations'] += 1
                f = run_case(fn, c, spec, env, names)
                if f is not None:
                    res['failures'].append(f)
                    if len(res['failures']) >= 3: break
        out['evaluations'] += res['evaluations']
    json.dump(out, open(out_path, 'w'), indent=1)

if __name__ == '__main__':
    main()
